/-
Preamble (proved once, re-checked on every run): the chord and tangent formulas that the
generated obligations of contracts/c_group_law.py conclude with ARE addition in Mathlib's
group of points of the short Weierstrass curve y^2 = x^3 + a x + b
(WeierstrassCurve.Affine.Point, an AddCommGroup: associativity included).
-/
import Mathlib.AlgebraicGeometry.EllipticCurve.Affine.Point
import Mathlib.Tactic.FieldSimp
import Mathlib.Tactic.LinearCombination

open WeierstrassCurve

variable {F : Type*} [Field F] [DecidableEq F]

/-- short Weierstrass curve y^2 = x^3 + a x + b -/
def sw (a b : F) : Affine F := ⟨0, 0, 0, a, b⟩

omit [DecidableEq F] in
@[simp] theorem sw_a1 (a b : F) : (sw a b).a₁ = 0 := rfl
omit [DecidableEq F] in
@[simp] theorem sw_a2 (a b : F) : (sw a b).a₂ = 0 := rfl
omit [DecidableEq F] in
@[simp] theorem sw_a3 (a b : F) : (sw a b).a₃ = 0 := rfl
omit [DecidableEq F] in
@[simp] theorem sw_a4 (a b : F) : (sw a b).a₄ = a := rfl
omit [DecidableEq F] in
@[simp] theorem sw_a6 (a b : F) : (sw a b).a₆ = b := rfl
omit [DecidableEq F] in
@[simp] theorem sw_negY (a b x y : F) : (sw a b).negY x y = -y := by simp [Affine.negY]

omit [DecidableEq F] in
/-- the curve equation of `sw a b` is btclib's `_y2`: y^2 = (x^2 + a) x + b -/
theorem sw_equation (a b x y : F) : (sw a b).Equation x y ↔ y^2 = x^3 + a*x + b := by
  rw [Affine.equation_iff]; simp

/-- negation: (x, y) ↦ (x, -y)  (CurveGroup.negate / negate_jac) -/
theorem sw_neg (a b x y : F) (h : (sw a b).Nonsingular x y) :
    ∃ h', -(Affine.Point.some x y h) = Affine.Point.some x (-y) h' := by
  refine ⟨?_, ?_⟩
  · have := (Affine.nonsingular_neg (W' := sw a b) x y).mpr h
    simpa using this
  · simp [Affine.Point.neg_some]

/-- opposite points add to the point at infinity (add_jac: V = 0, W ≠ 0 ⇒ INFJ) -/
theorem sw_add_opposite (a b x y : F) (h1 : (sw a b).Nonsingular x y) (h2 : (sw a b).Nonsingular x (-y)) :
    Affine.Point.some x y h1 + Affine.Point.some x (-y) h2 = 0 := by
  apply Affine.Point.add_of_Y_eq rfl
  simp

/-- the chord law (contracts AddJacChord / AddJacAffChord conclude with exactly x3, y3) -/
theorem sw_add_of_X_ne (a b x1 y1 x2 y2 : F) (h1 : (sw a b).Nonsingular x1 y1)
    (h2 : (sw a b).Nonsingular x2 y2) (hx : x1 ≠ x2) :
    ∃ h3, Affine.Point.some x1 y1 h1 + Affine.Point.some x2 y2 h2 =
      Affine.Point.some
        (((y2 - y1) / (x2 - x1))^2 - x1 - x2)
        (((y2 - y1) / (x2 - x1)) * (x1 - (((y2 - y1) / (x2 - x1))^2 - x1 - x2)) - y1) h3 := by
  have hne : x2 - x1 ≠ 0 := sub_ne_zero.mpr (Ne.symm hx)
  have hne' : x1 - x2 ≠ 0 := sub_ne_zero.mpr hx
  rw [Affine.Point.add_of_X_ne hx]
  have hs : (sw a b).slope x1 x2 y1 y2 = (y2 - y1) / (x2 - x1) := by
    rw [Affine.slope_of_X_ne hx]
    field_simp
    ring
  have hX : (sw a b).addX x1 x2 ((sw a b).slope x1 x2 y1 y2) = ((y2 - y1) / (x2 - x1))^2 - x1 - x2 := by
    rw [hs]; simp [Affine.addX, sw]
  have hY : (sw a b).addY x1 x2 y1 ((sw a b).slope x1 x2 y1 y2) =
      ((y2 - y1) / (x2 - x1)) * (x1 - (((y2 - y1) / (x2 - x1))^2 - x1 - x2)) - y1 := by
    rw [hs]; simp [Affine.addY, Affine.negAddY, Affine.negY, Affine.addX, sw]; ring
  refine ⟨?_, ?_⟩
  · have := Affine.nonsingular_add h1 h2 (fun h => hx h.1)
    rwa [hY, hX] at this
  · congr 1 <;> first | exact hX | exact hY

/-- the tangent law (contracts DoubleJacHelperTangent / DoubleJacTangent / AddJacSamePoint) -/
theorem sw_double (a b x y : F) (h : (sw a b).Nonsingular x y) (hy : y ≠ 0) (h2 : (2:F) ≠ 0) :
    ∃ h3, Affine.Point.some x y h + Affine.Point.some x y h =
      Affine.Point.some
        (((3*x*x + a) / (2*y))^2 - x - x)
        (((3*x*x + a) / (2*y)) * (x - (((3*x*x + a) / (2*y))^2 - x - x)) - y) h3 := by
  have hne : y ≠ (sw a b).negY x y := by
    simp only [sw_negY]
    intro hh
    apply hy
    have : (2:F) * y = 0 := by linear_combination hh
    exact (mul_eq_zero.mp this).resolve_left h2
  rw [Affine.Point.add_self_of_Y_ne hne]
  have h2y : (2:F) * y ≠ 0 := mul_ne_zero h2 hy
  have hs : (sw a b).slope x x y y = (3*x*x + a) / (2*y) := by
    rw [Affine.slope_of_Y_ne rfl hne]
    simp
    have hyy : y + y ≠ 0 := by
      intro hh; apply h2y; linear_combination hh
    rw [div_eq_div_iff hyy h2y]
    ring
  have hX : (sw a b).addX x x ((sw a b).slope x x y y) = ((3*x*x + a) / (2*y))^2 - x - x := by
    rw [hs]; simp [Affine.addX]
  have hY : (sw a b).addY x x y ((sw a b).slope x x y y) =
      ((3*x*x + a) / (2*y)) * (x - (((3*x*x + a) / (2*y))^2 - x - x)) - y := by
    rw [hs]; simp [Affine.addY, Affine.negAddY, Affine.negY, Affine.addX]; ring
  refine ⟨?_, ?_⟩
  · have := Affine.nonsingular_add h h (fun hh => hne hh.2)
    rwa [hY, hX] at this
  · congr 1
