#!/bin/sh
# bin/try_mutant.sh <patch.diff> <property> [extra args]: run a check against a scratch copy of /repo with the patch applied
patch="$1"; prop="$2"; shift 2
scr=$(mktemp -d /tmp/scr.XXXXXX)
cp -r /repo/btclib /repo/tests "$scr/" && (cd "$scr" && git init -q . 2>/dev/null; patch -p1 -s < "$patch") || { echo "patch failed"; rm -rf "$scr"; exit 9; }
PYVC_REPO="$scr" /verif/bin/check "$prop" "$@"; rc=$?
rm -rf "$scr"
echo "exit=$rc"
