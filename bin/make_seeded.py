#!/usr/bin/env python3
"""assemble /verif/seeded/<prop>-<k>/ from the sub-agents' deliverables, the detection log
(work/mutants.log) and the confirmation log (work/confirm.log)"""
import json, os, re, shutil, sys
SRC = sys.argv[1] if len(sys.argv) > 1 else "/tmp/wt/out"
here = os.path.dirname(os.path.dirname(os.path.abspath(__file__)))
det = {}
if os.path.exists(os.path.join(here, "work/mutants.log")):
    for ln in open(os.path.join(here, "work/mutants.log")):
        m = re.match(r"(C\d+) (\w+): (.*)", ln)
        if m:
            det[(m.group(1), m.group(2))] = m.group(3).strip()
conf = {}
if os.path.exists(os.path.join(here, "work/confirm.log")):
    for ln in open(os.path.join(here, "work/confirm.log")):
        m = re.match(r"(C\d+) (\w+): (\{.*\})", ln)
        if m:
            try:
                conf[(m.group(1), m.group(2))] = json.loads(m.group(3))
            except json.JSONDecodeError:
                pass
n = 0
for prop in sorted(os.listdir(SRC)):
    d = os.path.join(SRC, prop)
    if not (os.path.isdir(d) and re.fullmatch(r"C\d+", prop)):
        continue
    for k in sorted(os.listdir(d)):
        md = os.path.join(d, k)
        if not os.path.exists(os.path.join(md, "patch.diff")):
            continue
        out = os.path.join(here, "seeded", f"{prop}-{k}")
        os.makedirs(out, exist_ok=True)
        for f in ("patch.diff", "demo.py", "notes.md"):
            if f == "patch.diff" and os.path.exists(os.path.join(out, "patch.original.diff")):
                continue        # rebased onto a later tree: keep the rebased one
            if os.path.exists(os.path.join(md, f)):
                shutil.copy(os.path.join(md, f), os.path.join(out, f))
        notes = open(os.path.join(md, "notes.md")).read() if os.path.exists(os.path.join(md, "notes.md")) else ""
        files = re.findall(r"^\+\+\+ b/(\S+)", open(os.path.join(md, "patch.diff")).read(), re.M)
        dline = det.get((prop, k), "not run yet")
        caught = "VIOLATION" in dline
        obl = re.findall(r"obligation=(\S+(?: \[\w+\])?)", dline)
        meta = dict(property=prop, files_changed=files,
                    written_by="independent sub-agent given only the property text and its own scratch worktree",
                    needs_to_manifest=(re.search(r"(?im)^.*(needs|manifest|trigger).*$", notes) or [""])[0][:400] if notes else "",
                    confirmed_in_scratch_worktree=conf.get((prop, k), "see notes.md (agent's own confirmation); bin/confirm_mutant.sh re-runs it"),
                    ran=f"bin/try_mutant.sh seeded/{prop}-{k}/patch.diff {prop}",
                    detected=caught, detected_by=obl, check_output=dline[:600])
        json.dump(meta, open(os.path.join(out, "meta.json"), "w"), indent=1)
        n += 1
print(n, "seeded changes")
