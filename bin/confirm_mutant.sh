#!/bin/sh
# bin/confirm_mutant.sh <dir with patch.diff demo.py> : confirm in a scratch worktree that the change
# applies, keeps the suite at baseline, and that the demo fails with it and passes without it
d="$1"
wt=/tmp/wt/confirm.$$
git -C /repo worktree add -q "$wt" HEAD || exit 9
cd "$wt" || exit 9
res="{"
/venv/bin/python "$d/demo.py" > /dev/null 2>&1; res="$res\"demo_clean_rc\": $?,"
if git apply "$d/patch.diff" 2>/dev/null || patch -p1 -s < "$d/patch.diff"; then
  /venv/bin/python "$d/demo.py" > /dev/null 2>&1; res="$res\"demo_mutant_rc\": $?,"
  tail=$(/venv/bin/python -m pytest -q -p no:cacheprovider --timeout=900 --continue-on-collection-errors --no-cov 2>&1 | tail -1)
  res="$res\"suite_with_mutant\": \"$tail\","
else
  res="$res\"apply\": \"failed\","
fi
res="$res\"tree\": \"$(git -C /repo log --format=%h -1)\"}"
cd /; git -C /repo worktree remove --force "$wt"
echo "$res"
