#!/usr/bin/env python3
"""writes MANIFEST.json from checks.PROPS (run by hand after editing checks.py)"""
import json, os, sys
here = os.path.dirname(os.path.dirname(os.path.abspath(__file__)))
sys.path.insert(0, here)
import checks
props = [json.loads(l) for l in open(os.path.join(here, "properties.jsonl"))]
TECH = {"proof": "contract-based deductive verification: VCs generated from the real AST (pyvc), discharged by z3/cvc5; bounded stand-ins labelled",
        "other": "contracts on the real functions; range/shape obligations proved by pyvc+z3; the rest checked by labelled bounded stand-ins against independent reference implementations"}
man = dict(version=1,
           setup_cmd="sh bin/setup.sh",
           hooks=dict(guard="BTCLIB_VERIF", enable="none needed: contracts are sidecars under /verif/contracts, the extractor reads /repo's source text",
                      baseline_off_cmd="cd /repo && /venv/bin/python -m pytest -ra -q -p no:cacheprovider --timeout=900 --continue-on-collection-errors",
                      source_commits=[], add_only=True),
           engines=[dict(name="pyvc", path="pyvc/", serves_properties=sorted(checks.PROPS), kind_free_text="own VC generator: symbolic execution of the real Python AST under sidecar contracts; z3 (python API) and cvc5 CLI back ends; native replay and bounded stand-ins under /venv/bin/python")],
           checks=[], not_applicable=[], notes="see DESIGN.md; known_findings.json lists the fifteen defects of btclib found and repaired (fix: commits in /repo); seeded/ holds 59 independent property-breaking changes with the output of the check that catches each")
for p in props:
    pid = p["id"]
    cfg = checks.PROPS.get(pid)
    if cfg is None:
        man["not_applicable"].append(dict(property_id=pid, reason=checks.NOT_APPLICABLE.get(pid, "not under contract yet")))
        continue
    level = cfg.get("level", "proof")
    man["checks"].append(dict(
        property_id=pid,
        quick_cmd=f"bin/check {pid} --tier quick",
        thorough_cmd=f"bin/check {pid} --tier thorough",
        evidence_file=f"evidence/{pid}.json",
        replay_cmd_template=f"bin/check {pid} --replay {{path}}",
        engine="pyvc",
        level_claimed=dict(category=level, text=cfg.get("claim", checks.DEFAULT_CLAIM[level]) + " Not decided: " + "; ".join(cfg.get("not_decided", [])) , design_ref="DESIGN.md section 4 " + pid),
        level_note="; ".join(cfg.get("assumptions", []) + checks.COMMON_ASSUMPTIONS + ["trusted: " + t for t in checks.COMMON_TRUSTED]),
        technique=TECH[level]))
json.dump(man, open(os.path.join(here, "MANIFEST.json"), "w"), indent=1)
print(len(man["checks"]), "checks;", len(man["not_applicable"]), "not applicable")
