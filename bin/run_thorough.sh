#!/bin/sh
# run every registered thorough check sequentially with a wall cap; summary to work/thorough_run.log
cd "$(dirname "$0")/.." || exit 3
: > work/thorough_run.log
for p in ${*:-$(python3 -c "import json;print(' '.join(c['property_id'] for c in json.load(open('MANIFEST.json'))['checks']))")}; do
  s=$(date +%s)
  out=$(timeout ${CAP:-2700} bin/check "$p" --tier thorough 2>&1); rc=$?
  e=$(date +%s)
  echo "== $p rc=$rc secs=$((e-s))" >> work/thorough_run.log
  echo "$out" | grep -E "^property|VIOLATION|UNDECIDED|CHECKER|KNOWN" | cut -c1-400 >> work/thorough_run.log
done
echo DONE >> work/thorough_run.log
