#!/bin/sh
# run every registered quick check sequentially; summary to work/full_run.log
cd "$(dirname "$0")/.." || exit 3
: > work/full_run.log
for p in $(python3 -c "import json;print(' '.join(c['property_id'] for c in json.load(open('MANIFEST.json'))['checks']))"); do
  s=$(date +%s)
  out=$(bin/check "$p" --tier "${1:-quick}" 2>&1); rc=$?
  e=$(date +%s)
  echo "== $p rc=$rc secs=$((e-s))" >> work/full_run.log
  echo "$out" | grep -E "^property|VIOLATION|UNDECIDED|CHECKER|KNOWN" | cut -c1-400 >> work/full_run.log
done
echo DONE >> work/full_run.log
