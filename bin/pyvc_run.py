#!/usr/bin/env python3
"""developer driver: python3-vt bin/pyvc_run.py <contract module> [target-substring]"""
import sys, os, json, time
sys.path.insert(0, os.path.dirname(os.path.dirname(os.path.abspath(__file__))))
from pyvc import VERIF, REPO
from pyvc.world import World
from pyvc.contracts import ContractSet
from pyvc.verify import verify_function, verify_lemma

mods = sys.argv[1].split(",")
filt = sys.argv[2] if len(sys.argv) > 2 else ""
w = World(REPO, [VERIF])
cs = ContractSet(w, mods)
def show(r):
    st = {}
    for o in r.obligations:
        st[o["status"]] = st.get(o["status"], 0) + 1
    print(f"== {r.target}: paths={r.paths} cut={r.cut_paths} obligations={len(r.obligations)} {st} secs={r.secs:.1f} reach={r.reach}")
    for u in r.unsupported: print("   UNSUPPORTED:", u)
    if r.error: print("   ERROR:", r.error)
    for o in r.obligations:
        if o["status"] != "proved":
            print("   ", o["status"], o["name"], o["backend"], "model=", o["model"], o["note"], "\n      goal:", o["goal"][:200])
    print("   called:", r.called)
for t, c in cs.by_name.items():
    if filt in t:
        show(verify_function(w, cs, c))
for name, fi, types, opts in cs.lemmas:
    if filt in name:
        show(verify_lemma(w, cs, name, fi, types, opts))
