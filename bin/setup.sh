#!/bin/sh
# offline setup: nothing to build; verify the tools the checks use are present
set -e
python3-vt -c "import z3; print('z3', z3.get_version_string())"
/venv/bin/python -c "import btclib; print('btclib', btclib.__file__)"
test -x /usr/bin/cvc5 && /usr/bin/cvc5 --version | head -1 || echo "cvc5 CLI absent (second solver skipped)"
mkdir -p work evidence
