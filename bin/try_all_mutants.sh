#!/bin/sh
# bin/try_all_mutants.sh <dir with <PROP>/<k>/patch.diff> [PROP...]: exit code per mutant into work/mutants.log
src="$1"; shift
mkdir -p /verif/work
for prop in "$@"; do
  for d in "$src/$prop"/*/; do
    [ -f "$d/patch.diff" ] || continue
    out=$(/verif/bin/try_mutant.sh "$d/patch.diff" "$prop" 2>&1 | grep -E "VIOLATION|exit=|UNDECIDED|CHECKER" | head -5 | tr '\n' ' ')
    echo "$prop $(basename $d): $out" | cut -c1-600 | tee -a /verif/work/mutants.log
  done
done
