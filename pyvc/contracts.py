"""Loading sidecar contracts, building symbolic arguments from declared types,
using a contract at a call site, loop contracts."""
from __future__ import annotations

import ast
import importlib
import io
import re

import z3

from . import api
from .ctx import PathEnd
from .interp import Frame, FuncRef, Interp, _Break, _Continue, _Return
from .ops import PyRaise, raise_py, truth, values_equal, wrap_bool, wrap_int, zi
from .values import (CB, IE, SL, ExcVal, Obj, Opaque, SBool, SBV, SBytes, SInt, SList, SStream,
                     Unsupported, as_sbytes, zint)
from .world import ClassInfo, FuncInfo


# ------------------------------------------------------------------ types
def split_top(s, sep=","):
    out, depth, cur = [], 0, ""
    for ch in s:
        if ch in "[{(":
            depth += 1
        elif ch in "]})":
            depth -= 1
        if ch == sep and depth == 0:
            out.append(cur.strip())
            cur = ""
        else:
            cur += ch
    if cur.strip():
        out.append(cur.strip())
    return out


class TypeEnv:
    def __init__(self, world, shapes):
        self.world = world
        self.shapes = shapes        # class fullname -> Shape


class Shape:
    def __init__(self, target, fields, ci, inv_fi, options):
        self.target = target
        self.fields = fields
        self.ci = ci
        self.inv_fi = inv_fi
        self.options = options


def make_value(I, name, typ, tenv, assume_inv=True):
    """fresh symbolic value of the declared type; facts of the type are assumed"""
    ctx = I.ctx
    typ = typ.strip()
    if typ == "int":
        t = z3.Int(name)
        ctx.inputs[name] = ("int", t)
        return SInt(t)
    m = re.fullmatch(r"u(\d+)", typ)
    if m:
        t = z3.Int(name)
        ctx.inputs[name] = ("int", t)
        ctx.fact(z3.And(t >= 0, t < 2 ** int(m.group(1))))
        return SInt(t)
    m = re.fullmatch(r"int\[(-?\w+)\.\.(-?\w+)\]", typ)
    if m:
        t = z3.Int(name)
        ctx.inputs[name] = ("int", t)
        ctx.fact(z3.And(t >= int(m.group(1), 0), t <= int(m.group(2), 0)))
        return SInt(t)
    m = re.fullmatch(r"bv(\d+)", typ)
    if m:
        w = int(m.group(1))
        t = z3.BitVec(name, w)
        ctx.inputs[name] = ("bv", t)
        return SBV(t, w)
    if typ == "bool":
        t = z3.Bool(name)
        ctx.inputs[name] = ("bool", t)
        return SBool(t)
    if typ == "none":
        return None
    m = re.fullmatch(r"const\((.*)\)", typ)
    if m:
        return ast.literal_eval(m.group(1))
    m = re.fullmatch(r"live\((.*)\)", typ)
    if m:
        modname, _, attr = m.group(1).rpartition(".")
        return I.wrap_live(getattr(importlib.import_module(modname), attr))
    if typ == "bytes" or typ == "bytearray":
        arr = z3.Array(name, z3.IntSort(), z3.IntSort())
        n = z3.Int(name + ".len")
        ctx.inputs[name] = ("bytes", arr, n)
        ctx.fact(n >= 0)
        sl = SL(arr, z3.IntVal(0), n)
        ctx.len_syms.append([name + ".len", [sl], False])
        return SBytes((sl,), mutable=(typ == "bytearray"))
    m = re.fullmatch(r"(bytes|bytearray)\[(\d+)\]", typ)
    if m:
        arr = z3.Array(name, z3.IntSort(), z3.IntSort())
        n = int(m.group(2))
        ctx.inputs[name] = ("bytes", arr, z3.IntVal(n))
        return SBytes((SL(arr, z3.IntVal(0), z3.IntVal(n)),), mutable=(m.group(1) == "bytearray"))
    m = re.fullmatch(r"bytes\[(\d+)\.\.(\d+)\]", typ)
    if m:
        arr = z3.Array(name, z3.IntSort(), z3.IntSort())
        n = z3.Int(name + ".len")
        ctx.inputs[name] = ("bytes", arr, n)
        ctx.fact(z3.And(n >= int(m.group(1)), n <= int(m.group(2))))
        sl = SL(arr, z3.IntVal(0), n)
        ctx.len_syms.append([name + ".len", [sl], False])
        return SBytes((sl,))
    if typ == "stream":
        arr = z3.Array(name + ".buf", z3.IntSort(), z3.IntSort())
        n = z3.Int(name + ".len")
        p = z3.Int(name + ".pos")
        ctx.inputs[name] = ("stream", arr, n, p)
        ctx.fact(z3.And(n >= 0, p >= 0, p <= n))
        return SStream(SBytes((SL(arr, z3.IntVal(0), n),)), SInt(p), name)
    if typ == "datetime":
        # aware datetime with whole seconds, as a POSIX timestamp (stated assumption: block
        # times are whole seconds; sub-second times are a separate finding, see DESIGN 6)
        t = z3.Int(name)
        ctx.inputs[name] = ("int", t)
        ctx.fact(z3.And(t >= 0, t < 2 ** 40))
        return Opaque("datetime", t)
    if typ == "str":
        return Opaque("str")
    if typ == "any":
        return Opaque("any")
    m = re.fullmatch(r"opaque\((\w+)\)", typ)
    if m:
        sort = z3.DeclareSort(m.group(1))
        t = z3.Const(name, sort)
        ctx.inputs[name] = ("opaque", t)
        return Opaque(m.group(1), t)
    if typ.startswith("tuple[") and typ.endswith("]"):
        parts = split_top(typ[6:-1])
        return tuple(make_value(I, f"{name}.{k}", p, tenv, assume_inv) for k, p in enumerate(parts))
    if typ.startswith("opt[") and typ.endswith("]"):
        if ctx.branch(z3.Bool(name + ".isnone")):
            return None
        return make_value(I, name, typ[4:-1], tenv, assume_inv)
    if typ.startswith("oneof[") and typ.endswith("]"):
        parts = split_top(typ[6:-1], "|")
        k = ctx.choose(len(parts), name + ".alt")
        return make_value(I, name, parts[k], tenv, assume_inv)
    m = re.fullmatch(r"list\[(.*);\s*(\d+)\]", typ)
    if m:
        return [make_value(I, f"{name}.{k}", m.group(1), tenv, assume_inv) for k in range(int(m.group(2)))]
    m = re.fullmatch(r"list\[(.*);\s*(\d+)\.\.(\d+)\]", typ)
    if m:
        lo, hi = int(m.group(2)), int(m.group(3))
        k = lo + ctx.choose(hi - lo + 1, name + ".len")
        return [make_value(I, f"{name}.{j}", m.group(1), tenv, assume_inv) for j in range(k)]
    if typ.startswith("list[") and typ.endswith("]"):
        kind = elem_kind(typ[5:-1])
        arr = z3.Array(name, z3.IntSort(), kind_sort(kind))
        n = z3.Int(name + ".len")
        ctx.inputs[name] = ("list", arr, n, kind)
        ctx.fact(n >= 0)
        return SList(arr, n, kind)
    if typ.startswith("obj:"):
        cname = typ[4:]
        sh = tenv.shapes.get(cname)
        if sh is None:
            raise Unsupported(f"no shape declared for {cname}")
        o = Obj(sh.ci, {})
        for fname, ftyp in sh.fields.items():
            o.fields[fname] = make_value(I, f"{name}.{fname}", ftyp, tenv, assume_inv)
        if sh.inv_fi is not None and assume_inv:
            r = I.call_func(sh.inv_fi, [o], {}, force_inline=True)
            ctx.assume(truth(r))
        return o
    raise Unsupported(f"type spec {typ!r}")


_DT_CACHE = {}


def elem_kind(s):
    s = s.strip()
    if s in ("int", "bool"):
        return s
    if s.startswith("tuple[") and s.endswith("]"):
        kinds = tuple(elem_kind(p) for p in split_top(s[6:-1]))
        key = ("tuple", kinds)
        if key not in _DT_CACHE:
            nm = "T_" + "_".join(str(kind_sort(k)) for k in kinds).replace(" ", "")
            dt = z3.Datatype(nm)
            dt.declare("mk", *[(f"f{i}", kind_sort(k)) for i, k in enumerate(kinds)])
            _DT_CACHE[key] = dt.create()
        return ("tuple", kinds, _DT_CACHE[key])
    m = re.fullmatch(r"opaque\((\w+)\)", s)
    if m:
        return ("opaque", m.group(1))
    raise Unsupported(f"list element type {s}")


def kind_sort(kind):
    if kind == "int":
        return z3.IntSort()
    if kind == "bool":
        return z3.BoolSort()
    if kind[0] == "tuple":
        return kind[2]
    if kind[0] == "opaque":
        return z3.DeclareSort(kind[1])
    raise Unsupported(str(kind))


def snapshot(v, memo=None):
    """entry copy of an argument (streams and mutable containers are copied)"""
    from .builtins2 import deep_copy
    return deep_copy(v, memo if memo is not None else {})


def havoc_like(I, v, name):
    ctx = I.ctx
    if isinstance(v, (bool, SBool)):
        return SBool(ctx.fresh(name, "bool"))
    if isinstance(v, (int, SInt)):
        return SInt(ctx.fresh(name))
    if isinstance(v, SBV):
        return SBV(z3.BitVec(f"{name}!{ctx.counter}", v.w), v.w)
    if isinstance(v, tuple):
        return tuple(havoc_like(I, x, f"{name}.{k}") for k, x in enumerate(v))
    if isinstance(v, list):
        return [havoc_like(I, x, f"{name}.{k}") for k, x in enumerate(v)]
    if isinstance(v, (bytes, SBytes)):
        arr = ctx.fresh(name, "arr")
        n = ctx.fresh(name + ".len")
        ctx.fact(n >= 0)
        return SBytes((SL(arr, z3.IntVal(0), n),), mutable=isinstance(v, SBytes) and v.mutable)
    if isinstance(v, SList):
        arr = z3.Const(f"{name}!{ctx.counter}", v.arr.sort())
        ctx.counter += 1
        n = ctx.fresh(name + ".len")
        ctx.fact(n >= 0)
        return SList(arr, n, v.kind)
    if isinstance(v, SStream):
        p = ctx.fresh(name + ".pos")
        ctx.fact(z3.And(p >= 0, p <= zint(as_sbytes(v.buf).length())))
        v.pos = SInt(p)
        return v
    if isinstance(v, Opaque) and v.t is not None:
        return Opaque(v.kind, z3.Const(f"{name}!{ctx.counter}", v.t.sort()))
    if v is None:
        return None
    raise Unsupported(f"cannot havoc {type(v).__name__} ({name})")


# ------------------------------------------------------------------ contracts
class Clause:
    def __init__(self, name, fi):
        self.name = name
        self.fi = fi
        self.params = [a.arg for a in fi.node.args.args]


class Contract:
    def __init__(self, entry, ci, world):
        self.target = entry["target"]
        self.types = entry["types"]
        self.returns = entry.get("returns")
        self.options = entry.get("options", {})
        self.inline = bool(self.options.get("inline"))
        self.ci = ci
        self.name = entry["name"]
        self.module = entry["module"]
        self.pre = None
        self.posts = []
        self.raises = []       # (exc name, mode, clause)
        self.model = None
        self.splits = []       # complete finite case splits (expr, lo, hi)
        self.invs = {}         # ordinal -> [clause]
        self.decs = {}
        for mname, fi in ci.methods.items():
            cl = Clause(mname, fi)
            if mname == "pre":
                self.pre = cl
            elif mname == "model":
                self.model = cl
            elif mname.startswith("post"):
                self.posts.append(cl)
            elif mname.startswith("split"):
                self.splits.append(cl)
            elif mname.startswith("raises_"):
                rest = mname[len("raises_"):]
                mode = "iff"
                if rest.endswith("_only_if"):
                    rest, mode = rest[:-8], "only_if"
                elif rest.endswith("_if"):
                    rest, mode = rest[:-3], "if"
                self.raises.append((rest, mode, cl))
            else:
                m = re.fullmatch(r"inv(\d+)(_.*)?", mname)
                if m:
                    self.invs.setdefault(int(m.group(1)), []).append(cl)
                    continue
                m = re.fullmatch(r"dec(\d+)", mname)
                if m:
                    self.decs[int(m.group(1))] = cl

    def usable_at_call(self):
        return self.model is not None or self.returns is not None

    def exc_class(self, I, name):
        live = self.ci.module.live.__dict__.get(name)
        if live is None:
            import builtins
            live = getattr(builtins, name, None)
        if live is None:
            raise Unsupported(f"contract {self.name}: unknown exception class {name}")
        return live

    def eval_clause(self, I, cl, ns):
        args = []
        for p in cl.params:
            if p not in ns:
                raise Unsupported(f"contract {self.name}.{cl.name}: no value for parameter {p!r}")
            args.append(ns[p])
        return I.call_func(cl.fi, args, {}, force_inline=True)

    # -- use at a call site (callee checked against its contract elsewhere)
    def apply(self, I, fi, env):
        ctx = I.ctx
        ns = dict(env)
        for k, v in env.items():
            ns[k + "0"] = v
        if self.pre is not None:
            r = self.eval_clause(I, self.pre, ns)
            ctx.prove(f"call.{self.target}.pre@{I.cur_func_name()}", _tb(truth(r)))
        if self.model is not None:
            return self.eval_clause(I, self.model, ns)
        for exc, mode, cl in self.raises:
            r = truth(self.eval_clause(I, cl, ns))
            if mode == "iff" or mode == "if":
                if ctx.branch(r):
                    raise_py(self.exc_class(I, exc))
            if mode == "only_if":
                # may raise when the condition holds
                if ctx.branch(r) and ctx.branch(ctx.fresh("mayraise", "bool")):
                    raise_py(self.exc_class(I, exc))
        if self.returns is None:
            raise Unsupported(f"contract {self.name}: no `returns` type and no model; cannot be used at a call site")
        tenv = I.tenv
        ctx.counter += 1
        res = make_value(I, f"ret.{self.name}!{ctx.counter}", self.returns, tenv)
        ns["result"] = res
        # effects on streams: declared by `post` clauses over <stream>.pos; havoc position first
        for k, v in env.items():
            if isinstance(v, SStream) and k in self.options.get("mutates", ()):
                old = SStream(v.buf, v.pos)
                ns[k + "0"] = old
                havoc_like(I, v, k)
        for cl in self.posts:
            r = self.eval_clause(I, cl, ns)
            ctx.assume(_tb(truth(r)))
        return res


def _tb(t):
    return z3.BoolVal(t) if isinstance(t, bool) else t


# ------------------------------------------------------------------ loops
class LoopHook:
    def __init__(self, contract, ordinal):
        self.contract = contract
        self.k = ordinal
        self.invs = contract.invs.get(ordinal, [])
        self.dec = contract.decs.get(ordinal)

    def ns(self, I, fr, extra=None):
        ns = {}
        for k, v in fr.entry.items():
            ns[k + "0"] = v
        f = fr
        chain = []
        while f is not None:
            chain.append(f)
            f = f.parent
        for f in reversed(chain):
            ns.update(f.env)
        ns.update(getattr(fr, "ghost", {}))
        if extra:
            ns.update(extra)
        return ns

    def check_invs(self, I, fr, phase, extra=None):
        ns = self.ns(I, fr, extra)
        for cl in self.invs:
            r = self.contract.eval_clause(I, cl, ns)
            I.ctx.prove(f"inv.{self.k}.{cl.name}.{phase}@{fr.fi.fullname}", _tb(truth(r)))

    def assume_invs(self, I, fr, extra=None):
        ns = self.ns(I, fr, extra)
        for cl in self.invs:
            r = self.contract.eval_clause(I, cl, ns)
            I.ctx.assume(_tb(truth(r)))

    def havoc(self, I, st, fr, skip=()):
        names = assigned_names(st)
        for nm in sorted(names):
            if nm in skip:
                continue
            f = fr
            while f is not None and nm not in f.env:
                f = f.parent
            if f is None:
                continue
            f.env[nm] = havoc_like(I, f.env[nm], nm)

    def dec_value(self, I, fr, extra=None):
        if self.dec is None:
            return None
        return zi(self.contract.eval_clause(I, self.dec, self.ns(I, fr, extra)))

    def run_while(self, I, st, fr):
        ctx = I.ctx
        self.check_invs(I, fr, "init")
        self.havoc(I, st, fr)
        self.assume_invs(I, fr)
        d0 = self.dec_value(I, fr)
        if not I.eval_cond(st.test, fr):
            I.exec_block(st.orelse, fr)
            return
        try:
            I.exec_block(st.body, fr)
        except _Break:
            return
        except _Continue:
            pass
        self.check_invs(I, fr, "preserve")
        if d0 is not None:
            d1 = self.dec_value(I, fr)
            ctx.prove(f"dec.{self.k}@{fr.fi.fullname}", z3.And(d0 >= 0, d1 < d0))
        ctx.loop_cut = True
        raise PathEnd()

    def run_for(self, I, st, fr, it):
        from .builtins2 import _SymRange
        from .builtins_ import index_value, list_elem
        ctx = I.ctx
        # element access and trip count
        if isinstance(it, _SymRange):
            if it.step != 1:
                raise Unsupported("loop contract over range with step != 1")
            start, stop = zi(it.start), zi(it.stop)
            N = z3.If(stop > start, stop - start, 0)

            def elem(k):
                return wrap_int(start + k)
        elif isinstance(it, range):
            if it.step != 1:
                raise Unsupported("loop contract over range with step != 1")
            N = z3.IntVal(len(it))

            def elem(k):
                return wrap_int(it.start + k)
        elif isinstance(it, SList):
            N = it.n

            def elem(k):
                return list_elem(I, it, k)
        elif isinstance(it, (SBytes, bytes)):
            sb = as_sbytes(it)
            N = zint(sb.length())

            def elem(k):
                facts = []
                t = sb.at(k, facts)
                for f in facts:
                    ctx.fact(f)
                return wrap_int(t)
        elif isinstance(it, (list, tuple)):
            vals = list(it)
            N = z3.IntVal(len(vals))

            def elem(k):
                return index_value(I, vals, SInt(k))
        else:
            raise Unsupported(f"loop contract over {type(it).__name__}")
        N = z3.simplify(N)
        self.check_invs(I, fr, "init", {"_k": 0, "_n": wrap_int(N)})
        targets = {n.id for n in ast.walk(st.target) if isinstance(n, ast.Name)}
        self.havoc(I, st, fr)
        k = ctx.fresh("_k")
        ctx.fact(z3.And(k >= 0, k <= N))
        self.assume_invs(I, fr, {"_k": SInt(k), "_n": wrap_int(N)})
        if not ctx.branch(k < N):
            I.exec_block(st.orelse, fr)
            return
        I.assign(st.target, elem(k), fr)
        try:
            I.exec_block(st.body, fr)
        except _Break:
            return
        except _Continue:
            pass
        self.check_invs(I, fr, "preserve", {"_k": wrap_int(k + 1), "_n": wrap_int(N)})
        ctx.loop_cut = True
        raise PathEnd()


MUTATORS = {"append", "extend", "pop", "insert", "remove", "clear", "reverse", "sort", "update",
            "add", "discard", "setdefault", "read", "seek", "popitem"}


def assigned_names(st):
    """names (possibly) changed by a loop: assigned, item/attribute-assigned, mutated by
    a method, or passed to a call while mutable"""
    out = set()

    def base_name(n):
        while isinstance(n, (ast.Subscript, ast.Attribute)):
            n = n.value
        return n.id if isinstance(n, ast.Name) else None

    def target(t):
        if isinstance(t, ast.Name):
            out.add(t.id)
        elif isinstance(t, (ast.Tuple, ast.List)):
            for e in t.elts:
                target(e)
        elif isinstance(t, ast.Starred):
            target(t.value)
        else:
            b = base_name(t)
            if b:
                out.add(b)
    body = st.body + st.orelse
    if isinstance(st, ast.For):
        target(st.target)
    for s in body:
        for n in ast.walk(s):
            if isinstance(n, (ast.Assign,)):
                for t in n.targets:
                    target(t)
            elif isinstance(n, (ast.AugAssign, ast.AnnAssign)):
                target(n.target)
            elif isinstance(n, ast.NamedExpr):
                target(n.target)
            elif isinstance(n, ast.For):
                target(n.target)
            elif isinstance(n, ast.Call):
                if isinstance(n.func, ast.Attribute) and n.func.attr in MUTATORS:
                    b = base_name(n.func.value)
                    if b:
                        out.add(b)
                if isinstance(n.func, ast.Attribute) and isinstance(n.func.value, ast.Name) and n.func.value.id == "heapq":
                    if n.args:
                        b = base_name(n.args[0])
                        if b:
                            out.add(b)
    return out


# ------------------------------------------------------------------ loading
class ContractSet:
    """everything declared by the contract modules of one check"""

    def __init__(self, world, module_names):
        self.world = world
        self.contracts = {}      # target fullname -> Contract used at call sites
        self.by_name = {}        # contract class name -> Contract (several may share a target)
        self.lemmas = []         # (name, FuncInfo, types, options)
        self.shapes = {}
        for mn in module_names:
            before = len(api.REGISTRY)
            mi = world.module(mn)
            if mi is None:
                raise RuntimeError(f"contract module {mn} not found")
            for e in api.REGISTRY:
                if e["module"] != mn:
                    continue
                if e["kind"] == "contract" and e.get("options", {}).get("gen") is not None:
                    continue        # native-only (bounded stand-in): not part of the proof
                if e["kind"] == "contract":
                    ci = mi.classes[e["name"]]
                    c = Contract(e, ci, world)
                    self.by_name[f"{mn}:{c.name}"] = c
                    if c.target not in self.contracts or (c.usable_at_call() and not self.contracts[c.target].usable_at_call()):
                        self.contracts[c.target] = c
                elif e["kind"] == "lemma":
                    self.lemmas.append((e["target"], mi.funcs[e["name"]], e["types"], e["options"]))
        # shapes: from every contract module that has been imported (they may be shared)
        for e in api.REGISTRY:
            if e["kind"] != "shape":
                continue
            smi = world.module(e["module"])
            ci = smi.classes[e["name"]]
            tgt = world.find(e["target"].split("#")[0])
            if not isinstance(tgt, ClassInfo):
                raise RuntimeError(f"shape target {e['target']} is not a class")
            self.shapes[e["target"]] = Shape(e["target"], e["fields"], tgt, ci.methods.get("inv"), e["options"])
            self.shapes[e["target"].rsplit(".", 1)[-1]] = self.shapes[e["target"]]
        self.tenv = TypeEnv(world, self.shapes)

    def loop_hooks(self):
        hooks = {}
        for c in self.by_name.values():
            for k in set(c.invs) | set(c.decs):
                hooks[(c.target, k)] = LoopHook(c, k)
        return hooks
