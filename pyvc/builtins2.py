"""Builtin functions and methods over the value domain (part 2)."""
from __future__ import annotations

import builtins as _bi
import hashlib
import hmac as _hmac
import io
import math
import types

import z3

from .ctx import PathEnd
from .ops import (PyRaise, bytes_eq, int_cmp, is_byteslike, is_intlike, raise_py, truth,
                  values_equal, wrap_bool, wrap_int, zi)
from .values import (CB, IE, SL, ExcVal, Obj, Opaque, SBool, SBV, SBytes, SInt, SList, SStream,
                     Unsupported, as_sbytes, bytes_concat, norm_bytes, reify, zint)
from .world import ClassInfo


def _sym(v):
    return isinstance(v, (SInt, SBool, SBV, SBytes, SList))


def _deep_sym(v):
    if isinstance(v, (SInt, SBool, SBV, SBytes, SList, Obj, Opaque, SStream, ExcVal)):
        return True
    if isinstance(v, (list, tuple, set, frozenset)):
        return any(_deep_sym(x) for x in v)
    if isinstance(v, dict):
        return any(_deep_sym(x) for x in v.values())
    return False


# ------------------------------------------------------------------ iteration
def iterate(I, v, for_loop=False):
    """the finite list of values an iterable yields (concrete length required)"""
    if isinstance(v, (list, tuple)):
        return list(v)
    if isinstance(v, (range, str, set, frozenset)):
        if isinstance(v, range) and len(v) > 100000:
            raise Unsupported("huge range")
        return list(v)
    if isinstance(v, dict):
        return list(v.keys())
    if isinstance(v, (bytes, bytearray)):
        return list(v)
    if isinstance(v, SBytes):
        n = v.length()
        if isinstance(n, int):
            facts = []
            out = [wrap_int(v.at(k, facts)) for k in range(n)]
            for f in facts:
                I.ctx.fact(f)
            return out
        raise Unsupported("iteration over bytes of symbolic length (needs a loop contract)")
    if isinstance(v, SList):
        n = z3.simplify(v.n)
        if z3.is_int_value(n):
            from .builtins_ import list_elem
            return [list_elem(I, v, z3.IntVal(k)) for k in range(n.as_long())]
        raise Unsupported("iteration over list of symbolic length (needs a loop contract)")
    if isinstance(v, _Iter):
        out = v.items[v.pos:]
        v.pos = len(v.items)
        return out
    if isinstance(v, _SymRange):
        # complete case split when the path condition confines the trip count to a small set
        if v.step == 1:
            start, stop = zi(v.start), zi(v.stop)
            cnt = z3.simplify(stop - start)
            for K in (4, 16):
                if I.ctx.entails(cnt <= K):
                    for k in range(K + 1):
                        if I.ctx.branch(cnt <= k):
                            from .builtins_ import binop
                            return [binop(I, "+", v.start, j) for j in range(k)]
                    break
        raise Unsupported("iteration over range with symbolic bound (needs a loop contract)")
    from .builtins_ import SymSet
    if isinstance(v, SymSet):
        return list(v.items)
    if isinstance(v, Obj):
        m = v.cls.find_method(I.world, "__iter__")
        if m is not None:
            return iterate(I, I.call_func(m, [v], {}))
    raise Unsupported(f"iteration over {type(v).__name__}")


class _Iter:
    def __init__(self, items):
        self.items = list(items)
        self.pos = 0


class _SymRange:
    def __init__(self, start, stop, step):
        self.start, self.stop, self.step = start, stop, step


# ------------------------------------------------------------------ hashes
HASH_SIZES = {"sha256": 32, "sha1": 20, "sha512": 64, "ripemd160": 20, "md5": 16, "sha384": 48,
              "sha224": 28, "sha3_256": 32, "blake2b": 64}


def hash_apply(I, alg, data, key=None):
    """digest of (possibly symbolic) data under an uninterpreted function per algorithm"""
    size = HASH_SIZES.get(alg)
    if size is None:
        raise Unsupported(f"hash algorithm {alg}")
    if isinstance(data, (bytes, bytearray)) and (key is None or isinstance(key, (bytes, bytearray))):
        if key is None:
            return hashlib.new(alg, bytes(data)).digest()
        return _hmac.new(bytes(key), bytes(data), alg).digest()
    ctx = I.ctx
    facts = []
    arr, n = reify(as_sbytes(data), facts)
    ArrS = z3.ArraySort(z3.IntSort(), z3.IntSort())
    if key is None:
        f = ctx.uf(f"H_{alg}", ArrS, z3.IntSort(), ArrS)
        out = f(arr, n)
    else:
        karr, kn = reify(as_sbytes(key), facts)
        f = ctx.uf(f"HMAC_{alg}", ArrS, z3.IntSort(), ArrS, z3.IntSort(), ArrS)
        out = f(karr, kn, arr, n)
    return SBytes((SL(out, z3.IntVal(0), z3.IntVal(size)),))


class HashObj:
    def __init__(self, alg, data=b"", key=None):
        self.alg = alg
        self.data = data
        self.key = key


def _hash_ctor(alg):
    def ctor(I, args, kwargs):
        data = args[0] if args else kwargs.get("data", b"")
        return HashObj(alg, data)
    return ctor


# ------------------------------------------------------------------ isinstance
def py_isinstance(I, v, t):
    if isinstance(t, tuple):
        return any(py_isinstance(I, v, x) for x in t)
    if isinstance(t, types.UnionType) or getattr(t, "__origin__", None) is types.UnionType:
        return any(py_isinstance(I, v, x) for x in t.__args__)
    if isinstance(t, ClassInfo):
        if isinstance(v, Obj) and isinstance(v.cls, ClassInfo):
            return v.cls is t or t in v.cls.bases(I.world)
        if isinstance(v, ExcVal):
            return t.live is not None and issubclass(v.cls, t.live)
        return False
    if not isinstance(t, type):
        origin = getattr(t, "__origin__", None)
        if origin is not None:
            return py_isinstance(I, v, origin)
        raise Unsupported(f"isinstance against {t!r}")
    if isinstance(v, SBool):
        return t in (bool, int, object)
    if isinstance(v, (SInt, SBV)):
        return t in (int, object)
    if isinstance(v, SBytes):
        if v.mutable:
            return t in (bytearray, object)
        return t in (bytes, object)
    if isinstance(v, SStream):
        return issubclass(io.BytesIO, t)
    if isinstance(v, SList):
        import collections.abc as cabc
        return issubclass(list, t)
    if isinstance(v, Obj):
        live = v.cls.live if isinstance(v.cls, ClassInfo) else None
        return live is not None and issubclass(live, t)
    if isinstance(v, ExcVal):
        return issubclass(v.cls, t)
    if isinstance(v, Opaque):
        if v.kind == "str":
            return issubclass(str, t)
        if v.kind == "datetime":
            import datetime as _dt
            return issubclass(_dt.datetime, t)
        if v.kind == "any":
            raise Unsupported("isinstance on an unconstrained value")
        return t is object
    if isinstance(v, HashObj):
        return t is object
    return isinstance(v, t)


# ------------------------------------------------------------------ builtin functions
def call_builtin(I, fn, args, kwargs):
    ctx = I.ctx
    if isinstance(fn, Opaque) and fn.kind == "strmethod":
        return Opaque("str")
    if isinstance(fn, Opaque) and fn.kind == "tdmethod":
        return wrap_int(fn.t)     # whole seconds: float(total_seconds) is exact below 2**53
    h = _HANDLERS.get(_key(fn))
    if h is not None:
        return h(I, args, kwargs)
    if isinstance(fn, type) and fn.__module__ == "builtins" or fn in (math.ceil, math.floor, math.isqrt, math.gcd, math.log2, math.prod):
        if not _deep_sym(args) and not _deep_sym(kwargs):
            return _native_call(fn, args, kwargs)
    if callable(fn) and not _deep_sym(args) and not _deep_sym(kwargs):
        mod = getattr(fn, "__module__", "") or ""
        if mod in ("builtins", "math", "operator", "itertools", "functools", "unicodedata", "_operator", "binascii", "struct", "_struct", "re", "json", "string") or isinstance(fn, (types.BuiltinFunctionType, types.BuiltinMethodType)):
            return _native_call(fn, args, kwargs)
    raise Unsupported(f"call of {getattr(fn, '__qualname__', fn)!r} with symbolic arguments")


def _native_call(fn, args, kwargs):
    try:
        return fn(*args, **kwargs)
    except Exception as e:  # noqa: BLE001
        raise PyRaise(ExcVal(type(e), e.args))


def _key(fn):
    try:
        hash(fn)
        return fn
    except TypeError:
        return id(fn)


def b_len(I, a, k):
    v = a[0]
    if isinstance(v, SBytes):
        n = v.length()
        return n if isinstance(n, int) else wrap_int(n)
    if isinstance(v, SList):
        return wrap_int(v.n)
    if isinstance(v, Obj):
        m = v.cls.find_method(I.world, "__len__")
        if m is not None:
            return I.call_func(m, [v], {})
        raise_py(TypeError, "object has no len()")
    from .builtins_ import SymSet
    if isinstance(v, SymSet):
        # number of distinct members: item i counts iff it differs from every earlier item
        import ast as _ast
        from .builtins_ import compare
        if len(v.items) > 8:
            raise Unsupported("len of symbolic set with more than 8 members")
        total = z3.IntVal(0)
        for i, x in enumerate(v.items):
            diff = []
            for y in v.items[:i]:
                e = truth(compare(I, _ast.Eq(), x, y))
                diff.append(z3.Not(z3.BoolVal(e) if isinstance(e, bool) else e))
            total = total + z3.If(z3.And(*diff) if diff else z3.BoolVal(True), 1, 0)
        return wrap_int(total)
    if isinstance(v, (SInt, SBool, SBV)) or v is None or isinstance(v, (int, float)):
        raise_py(TypeError, "object has no len()")
    if isinstance(v, _Iter):
        raise_py(TypeError, "iterator has no len()")
    if isinstance(v, Opaque):
        raise Unsupported(f"len() of opaque {v.kind}")
    return len(v)


def b_isinstance(I, a, k):
    return py_isinstance(I, a[0], a[1])


def b_int(I, a, k):
    if not a:
        return 0
    v = a[0]
    if isinstance(v, (SInt, SBV)):
        return v
    if isinstance(v, SBool):
        return wrap_int(zi(v))
    if isinstance(v, Opaque):
        raise Unsupported("int() of opaque string")
    if isinstance(v, SBytes):
        raise_py(ValueError, "int() of bytes")
    if isinstance(v, Obj):
        m = v.cls.find_method(I.world, "__int__") or v.cls.find_method(I.world, "__index__")
        if m is not None:
            return I.call_func(m, [v], {})
        raise_py(TypeError, "int() argument")
    return _native_call(int, a, k)


def b_bool(I, a, k):
    if not a:
        return False
    t = truth(a[0])
    return t if isinstance(t, bool) else wrap_bool(t)


def b_bytes(I, a, k):
    if not a:
        return b""
    v = a[0]
    if isinstance(v, SBytes):
        return norm_bytes(SBytes(v.segs))
    if isinstance(v, (bytes, bytearray, memoryview)):
        return bytes(v)
    if isinstance(v, (list, tuple)):
        if not any(_sym(x) for x in v):
            return _native_call(bytes, [v], {})
        segs = []
        for x in v:
            if isinstance(x, int):
                if not 0 <= x < 256:
                    raise_py(ValueError, "bytes must be in range(0, 256)")
                segs.append(CB(bytes([x])))
            else:
                t = zi(x)
                I.safety("bytes_range", wrap_bool(z3.And(t >= 0, t < 256)), ValueError)
                segs.append(IE(t, 1, True))
        return norm_bytes(SBytes(segs))
    if isinstance(v, SInt):
        # bytes(n): n zero bytes
        I.safety("bytes_neg", wrap_bool(v.t >= 0), ValueError)
        return SBytes((SL(z3.K(z3.IntSort(), z3.IntVal(0)), z3.IntVal(0), v.t),))
    if isinstance(v, SList) and v.kind == "int":
        i = z3.Int("bl!")
        I.safety("bytes_range", wrap_bool(z3.ForAll([i], z3.Implies(z3.And(i >= 0, i < v.n), z3.And(v.arr[i] >= 0, v.arr[i] < 256)))), ValueError)
        return SBytes((SL(v.arr, z3.IntVal(0), v.n),))
    return _native_call(bytes, a, k)


def b_bytearray(I, a, k):
    v = b_bytes(I, a, k)
    if isinstance(v, bytes):
        return SBytes((CB(v),), mutable=True) if False else bytearray(v)
    return SBytes(v.segs, mutable=True)


def b_range(I, a, k):
    if not any(_sym(x) for x in a):
        return _native_call(range, a, k)
    if len(a) == 1:
        return _SymRange(0, a[0], 1)
    if len(a) == 2:
        return _SymRange(a[0], a[1], 1)
    return _SymRange(a[0], a[1], a[2])


def _minmax(I, a, k, is_min):
    vals = a
    if len(a) == 1:
        vals = iterate(I, a[0])
    if "default" in k and not vals:
        return k["default"]
    if not vals:
        raise_py(ValueError, "empty sequence")
    if "key" in k and k["key"] is not None:
        raise Unsupported("min/max with key")
    if not any(_sym(x) for x in vals):
        return _native_call(min if is_min else max, [vals], {})
    r = vals[0]
    for x in vals[1:]:
        c = int_cmp("<" if is_min else ">", x, r)
        t = truth(c)
        if isinstance(t, bool):
            r = x if t else r
        else:
            r = wrap_int(z3.If(t, zi(x), zi(r)))
    return r


def b_abs(I, a, k):
    v = a[0]
    if isinstance(v, (SInt, SBool)):
        t = zi(v)
        return wrap_int(z3.If(t < 0, -t, t))
    if isinstance(v, SBV):
        return v
    return _native_call(abs, a, k)


def b_divmod(I, a, k):
    from .builtins_ import binop
    return (binop(I, "//", a[0], a[1]), binop(I, "%", a[0], a[1]))


def b_pow(I, a, k):
    ctx = I.ctx
    if not any(_sym(x) for x in a):
        return _native_call(pow, a, k)
    if len(a) == 2:
        from .builtins_ import binop
        return binop(I, "**", a[0], a[1])
    base, e, m = a
    x, y, z = zi(base), zi(e), zi(m)
    I.safety("pow_mod_zero", wrap_bool(z != 0), ValueError)
    if isinstance(e, int) and e == -1 or (isinstance(e, SInt) and False):
        cop = ctx.uf("coprime", z3.IntSort(), z3.IntSort(), z3.BoolSort())
        if not I.catching(ValueError):
            I.safety("pow_not_invertible", wrap_bool(cop(x, z)), ValueError)
        elif not ctx.branch(cop(x, z)):
            raise_py(ValueError, "base is not invertible for the given modulus")
        f = ctx.uf("modinv", z3.IntSort(), z3.IntSort(), z3.IntSort())
        r = f(x, z)
        ctx.fact(z3.Implies(z > 0, z3.And(r >= 0, r < z)))
        ctx.fact(z3.Implies(z > 1, r > 0))
        q = ctx.fresh("qinv")
        ctx.fact(z3.Implies(z > 0, x * r == 1 + q * z))
        return wrap_int(r)
    if isinstance(e, int) and 0 <= e <= 8:
        r = z3.IntVal(1)
        for _ in range(e):
            r = r * x
        if not ctx.entails(z > 0):
            raise Unsupported("pow with modulus of unknown sign")
        q, rr = ctx.divmod(r, z)
        return wrap_int(rr)
    f = ctx.uf("powmod", z3.IntSort(), z3.IntSort(), z3.IntSort(), z3.IntSort())
    r = f(x, y, z)
    ctx.fact(z3.Implies(z > 0, z3.And(r >= 0, r < z)))
    if not ctx.entails(y >= 0):
        I.safety("pow_neg_exp", wrap_bool(y >= 0), ValueError)
    return wrap_int(r)


def b_sum(I, a, k):
    vals = iterate(I, a[0])
    acc = a[1] if len(a) > 1 else k.get("start", 0)
    from .builtins_ import binop
    for x in vals:
        acc = binop(I, "+", acc, x)
    return acc


def b_any(I, a, k):
    vals = iterate(I, a[0])
    ts = [truth(v) for v in vals]
    if any(t is True for t in ts):
        return True
    ts = [t for t in ts if t is not False]
    if not ts:
        return False
    return wrap_bool(z3.Or(*[z3.BoolVal(t) if isinstance(t, bool) else t for t in ts]))


def b_all(I, a, k):
    vals = iterate(I, a[0])
    ts = [truth(v) for v in vals]
    if any(t is False for t in ts):
        return False
    ts = [t for t in ts if t is not True]
    if not ts:
        return True
    return wrap_bool(z3.And(*[z3.BoolVal(t) if isinstance(t, bool) else t for t in ts]))


def b_enumerate(I, a, k):
    start = a[1] if len(a) > 1 else k.get("start", 0)
    return [(start + i, x) for i, x in enumerate(iterate(I, a[0]))]


def b_zip(I, a, k):
    seqs = [iterate(I, x) for x in a]
    if k.get("strict"):
        if len({len(s) for s in seqs}) > 1:
            # ValueError raised lazily after the common prefix; we raise at once
            I.safety("zip_strict", False, ValueError)
            raise_py(ValueError, "zip() arguments have different lengths")
    return [tuple(t) for t in zip(*seqs)]


def b_reversed(I, a, k):
    return list(reversed(iterate(I, a[0])))


def b_sorted(I, a, k):
    vals = iterate(I, a[0])
    if _deep_sym(vals) or k.get("key") is not None and not isinstance(k.get("key"), (types.BuiltinFunctionType, types.FunctionType)):
        if len(vals) <= 1:
            return list(vals)
        if len(vals) == 2 and k.get("key") is None:
            from .builtins_ import compare
            import ast as _ast
            c = compare(I, _ast.LtE(), vals[0], vals[1])
            if I.ctx.branch(truth(c)):
                return [vals[0], vals[1]]
            return [vals[1], vals[0]]
        raise Unsupported("sorted() of symbolic values")
    return _native_call(sorted, [vals], k)


def b_list(I, a, k):
    if not a:
        return []
    if isinstance(a[0], SList):
        return SList(a[0].arr, a[0].n, a[0].kind)
    return list(iterate(I, a[0]))


def b_tuple(I, a, k):
    return tuple(iterate(I, a[0])) if a else ()


def b_set(I, a, k):
    if not a:
        return set()
    vals = iterate(I, a[0])
    if _deep_sym(vals):
        from .builtins_ import SymSet
        return SymSet(vals)
    try:
        return set(vals)
    except TypeError as e:
        raise PyRaise(ExcVal(TypeError, e.args))


def b_frozenset(I, a, k):
    r = b_set(I, a, k)
    return frozenset(r) if isinstance(r, set) else r


def b_dict(I, a, k):
    d = {}
    if a:
        if isinstance(a[0], dict):
            d.update(a[0])
        else:
            for kv in iterate(I, a[0]):
                kk, vv = iterate(I, kv)
                d[kk] = vv
    d.update(k)
    return d


def b_str(I, a, k):
    if not a:
        return ""
    if _deep_sym(a[0]):
        return Opaque("str")
    return _native_call(str, a, k)


def b_repr(I, a, k):
    if _deep_sym(a[0]):
        return Opaque("str")
    return repr(a[0])


def b_hex(I, a, k):
    if _sym(a[0]):
        return Opaque("str")
    return _native_call(hex, a, k)


def b_type(I, a, k):
    v = a[0]
    if isinstance(v, Obj):
        return v.cls
    if isinstance(v, (SInt, SBV)):
        return int
    if isinstance(v, SBool):
        return bool
    if isinstance(v, SBytes):
        return bytearray if v.mutable else bytes
    if isinstance(v, SStream):
        return io.BytesIO
    if isinstance(v, SList):
        return list
    if isinstance(v, ExcVal):
        return v.cls
    if isinstance(v, Opaque):
        if v.kind == "str":
            return str
        raise Unsupported("type() of opaque")
    return type(v)


def b_iter(I, a, k):
    return _Iter(iterate(I, a[0]))


def b_next(I, a, k):
    it = a[0]
    if isinstance(it, list):
        # a generator expression is evaluated eagerly to the list of its values
        if it:
            return it[0]
        if len(a) > 1:
            return a[1]
        I.safety("next", False, StopIteration)
        raise_py(StopIteration)
    if not isinstance(it, _Iter):
        raise Unsupported("next() on non-iterator")
    if it.pos >= len(it.items):
        if len(a) > 1:
            return a[1]
        I.safety("next", False, StopIteration)
        raise_py(StopIteration)
    it.pos += 1
    return it.items[it.pos - 1]


def b_BytesIO(I, a, k):
    data = a[0] if a else b""
    if isinstance(data, SStream):
        raise_py(TypeError, "BytesIO of BytesIO")
    if not is_byteslike(data):
        raise_py(TypeError, "a bytes-like object is required")
    return SStream(data if not isinstance(data, bytearray) else bytes(data), 0)


def b_ceil(I, a, k):
    v = a[0]
    if isinstance(v, _Ratio):
        # math.ceil(a / b) through floats: exact below 2**53 (DESIGN 3.4) - side condition proved here
        x, y = zi(v.num), zi(v.den)
        I.safety("float_exact", wrap_bool(z3.And(x >= 0, x < 2 ** 53, y >= 1)), OverflowError)
        q, r = I.ctx.divmod(x + y - 1, y)
        return wrap_int(q)
    return _native_call(math.ceil, a, k)


class _Ratio:
    """a / b with integer operands, kept exact (float division in the code)"""

    def __init__(self, num, den):
        self.num, self.den = num, den


def b_hash(I, a, k):
    if _deep_sym(a[0]):
        return SInt(I.ctx.fresh("hash"))
    return hash(a[0])


def b_id(I, a, k):
    return id(a[0])


def b_getattr(I, a, k):
    from .builtins_ import get_attr
    try:
        return get_attr(I, a[0], a[1])
    except PyRaise as e:
        if len(a) > 2 and issubclass(e.exc.cls, AttributeError):
            return a[2]
        raise


def b_hasattr(I, a, k):
    from .builtins_ import get_attr
    try:
        I._try_stack = I.__dict__.setdefault("_try_stack", [])
        I._try_stack.append([AttributeError])
        try:
            get_attr(I, a[0], a[1])
        finally:
            I._try_stack.pop()
        return True
    except PyRaise as e:
        if issubclass(e.exc.cls, AttributeError):
            return False
        raise


def b_callable(I, a, k):
    from .interp import BoundMethod, Closure, FuncRef
    return isinstance(a[0], (FuncRef, Closure, BoundMethod, ClassInfo)) or callable(a[0])


def b_randbelow(I, a, k):
    n = zi(a[0])
    I.safety("randbelow", wrap_bool(n > 0), ValueError)
    r = I.ctx.fresh("rand")
    I.ctx.fact(z3.And(r >= 0, r < n))
    return wrap_int(r)


def b_token_bytes(I, a, k):
    n = a[0] if a else 32
    if not isinstance(n, int):
        raise Unsupported("token_bytes of symbolic size")
    arr = I.ctx.fresh("rnd", "arr")
    return SBytes((SL(arr, z3.IntVal(0), z3.IntVal(n)),))


def b_deepcopy(I, a, k):
    return deep_copy(a[0], {})


def deep_copy(v, memo):
    if id(v) in memo:
        return memo[id(v)]
    if isinstance(v, list):
        r = []
        memo[id(v)] = r
        r.extend(deep_copy(x, memo) for x in v)
        return r
    if isinstance(v, dict):
        r = {}
        memo[id(v)] = r
        for kk, x in v.items():
            r[kk] = deep_copy(x, memo)
        return r
    if isinstance(v, tuple):
        return tuple(deep_copy(x, memo) for x in v)
    if isinstance(v, Obj):
        r = Obj(v.cls, {})
        memo[id(v)] = r
        for kk, x in v.fields.items():
            r.fields[kk] = deep_copy(x, memo)
        return r
    if isinstance(v, SStream):
        return SStream(v.buf, v.pos)
    if isinstance(v, SList):
        return SList(v.arr, v.n, v.kind)
    if isinstance(v, bytearray):
        return bytearray(v)
    if isinstance(v, SBytes) and v.mutable:
        return SBytes(v.segs, mutable=True)
    if isinstance(v, set):
        return set(v)
    return v


def b_print(I, a, k):
    return None


def b_hmac_new(I, a, k):
    key = a[0]
    msg = a[1] if len(a) > 1 else k.get("msg", b"")
    dm = a[2] if len(a) > 2 else k.get("digestmod")
    alg = dm if isinstance(dm, str) else getattr(dm, "__name__", "").replace("openssl_", "")
    return HashObj(alg, msg if msg is not None else b"", key=key)


def b_hmac_digest(I, a, k):
    key, msg, dm = a[0], a[1], a[2] if len(a) > 2 else k.get("digest")
    alg = dm if isinstance(dm, str) else getattr(dm, "__name__", "").replace("openssl_", "")
    return hash_apply(I, alg, msg, key=key)


def b_hashlib_new(I, a, k):
    alg = a[0]
    data = a[1] if len(a) > 1 else k.get("data", b"")
    return HashObj(alg, data)


def b_compare_digest(I, a, k):
    e = values_equal(a[0], a[1], I.ctx)
    return e if isinstance(e, bool) else wrap_bool(e)


import copy as _copy      # noqa: E402
import secrets as _secrets  # noqa: E402

_HANDLERS = {
    len: b_len, isinstance: b_isinstance, int: b_int, bool: b_bool, bytes: b_bytes, bytearray: b_bytearray,
    range: b_range, min: lambda I, a, k: _minmax(I, a, k, True), max: lambda I, a, k: _minmax(I, a, k, False),
    abs: b_abs, divmod: b_divmod, pow: b_pow, sum: b_sum, any: b_any, all: b_all, enumerate: b_enumerate,
    zip: b_zip, reversed: b_reversed, sorted: b_sorted, list: b_list, tuple: b_tuple, set: b_set,
    frozenset: b_frozenset, dict: b_dict, str: b_str, repr: b_repr, hex: b_hex, type: b_type, iter: b_iter,
    next: b_next, io.BytesIO: b_BytesIO, math.ceil: b_ceil, hash: b_hash, id: b_id, getattr: b_getattr,
    hasattr: b_hasattr, callable: b_callable, print: b_print,
    _secrets.randbelow: b_randbelow, _secrets.token_bytes: b_token_bytes,
    _copy.deepcopy: b_deepcopy, _copy.copy: lambda I, a, k: shallow_copy(a[0]),
    _hmac.new: b_hmac_new, _hmac.digest: b_hmac_digest, _hmac.compare_digest: b_compare_digest,
    hashlib.new: b_hashlib_new, _secrets.compare_digest: b_compare_digest,
    memoryview: lambda I, a, k: a[0],
}
from . import api as _api  # noqa: E402


def b_object_setattr(I, a, k):
    o, name, v = a
    if not isinstance(o, Obj):
        raise Unsupported("object.__setattr__ on non-object")
    o.fields[name] = v


_HANDLERS[object.__setattr__] = b_object_setattr
_HANDLERS[setattr] = b_object_setattr


def b_assume(I, a, k):
    t = truth(a[0])
    I.ctx.assume(z3.BoolVal(t) if isinstance(t, bool) else t)


_HANDLERS[_api.assume] = b_assume
_HANDLERS[_api.implies] = lambda I, a, k: wrap_bool(z3.Implies(_zb(truth(a[0])), _zb(truth(a[1]))))


def _zb(t):
    return z3.BoolVal(t) if isinstance(t, bool) else t

for _alg in ("sha256", "sha1", "sha512", "md5", "sha384", "sha224", "sha3_256"):
    _HANDLERS[getattr(hashlib, _alg)] = _hash_ctor(_alg)


def shallow_copy(v):
    if isinstance(v, list):
        return list(v)
    if isinstance(v, dict):
        return dict(v)
    if isinstance(v, Obj):
        return Obj(v.cls, dict(v.fields))
    if isinstance(v, SList):
        return SList(v.arr, v.n, v.kind)
    return v


# ------------------------------------------------------------------ methods
def call_method(I, obj, name, args, kwargs):
    ctx = I.ctx
    from .interp import SuperRef
    if isinstance(obj, SuperRef):
        if name == "__noop__":
            return None
        if name == "__eq__":
            # dataclass-generated __eq__ of the nearest dataclass base: same class, fields equal
            other = args[0]
            me = obj.obj
            if not isinstance(other, Obj) or other.cls is not me.cls:
                return NotImplemented
            conj = []
            for b in obj.cls.bases(I.world):
                if b.is_dataclass:
                    for fname, _, _, kind in b.all_fields(I.world):
                        if kind == "field":
                            e = values_equal(me.fields.get(fname), other.fields.get(fname), ctx)
                            if e is False:
                                return False
                            if e is not True:
                                conj.append(e)
                    break
            return wrap_bool(z3.And(*conj)) if conj else True
    if obj is int and name == "from_bytes":
        return int_from_bytes(I, args, kwargs)
    if obj is bytes and name == "fromhex":
        if isinstance(args[0], str):
            return _native_call(bytes.fromhex, args, kwargs)
        raise Unsupported("bytes.fromhex of symbolic string")
    if obj is dict and name == "fromkeys":
        return {kk: (args[1] if len(args) > 1 else None) for kk in iterate(I, args[0])}
    if isinstance(obj, SStream):
        return stream_method(I, obj, name, args, kwargs)
    if isinstance(obj, HashObj):
        if name == "update":
            obj.data = bytes_concat(obj.data, args[0])
            return None
        if name == "digest":
            return hash_apply(I, obj.alg, obj.data, obj.key)
        if name == "hexdigest":
            d = hash_apply(I, obj.alg, obj.data, obj.key)
            return d.hex() if isinstance(d, bytes) else Opaque("str")
        if name == "copy":
            return HashObj(obj.alg, obj.data, obj.key)
        raise Unsupported(f"hash method {name}")
    if is_intlike(obj) and not isinstance(obj, str):
        if name == "to_bytes":
            return int_to_bytes(I, obj, args, kwargs)
        if name == "bit_length":
            return bit_length(I, obj)
        if name == "bit_count" and isinstance(obj, int):
            return obj.bit_count()
        if isinstance(obj, int):
            return _native_call(getattr(obj, name), args, kwargs)
        raise Unsupported(f"int method {name}")
    if isinstance(obj, SBytes) or isinstance(obj, (bytes, bytearray)) and (_deep_sym(args)):
        return bytes_method(I, obj, name, args, kwargs)
    if isinstance(obj, list):
        return list_method(I, obj, name, args, kwargs)
    if isinstance(obj, dict):
        return dict_method(I, obj, name, args, kwargs)
    if isinstance(obj, SList):
        return slist_method(I, obj, name, args, kwargs)
    if isinstance(obj, (str, bytes, bytearray, tuple, set, frozenset)):
        if isinstance(obj, str) and name == "join":
            vals = iterate(I, args[0])
            if _deep_sym(vals):
                return Opaque("str")
            return obj.join(vals)
        if isinstance(obj, (bytes, bytearray)) and name == "join":
            r = b""
            vals = iterate(I, args[0])
            for i, x in enumerate(vals):
                if i and obj:
                    r = bytes_concat(r, bytes(obj))
                r = bytes_concat(r, x)
            return r
        if isinstance(obj, (set, frozenset)) and _deep_sym(args):
            raise Unsupported(f"set method {name} with symbolic argument")
        if isinstance(obj, str) and _deep_sym(args):
            return Opaque("str")
        if isinstance(obj, (set,)) and name in ("add", "discard", "remove", "update", "clear", "pop"):
            return _native_call(getattr(obj, name), args, kwargs)
        return _native_call(getattr(obj, name), args, kwargs)
    from .builtins_ import SymSet
    if isinstance(obj, SymSet):
        if name == "add":
            obj.items.append(args[0])
            return None
        raise Unsupported(f"symbolic set method {name}")
    raise Unsupported(f"method {name} on {type(obj).__name__}")


def int_from_bytes(I, args, kwargs):
    ctx = I.ctx
    data = args[0]
    order = args[1] if len(args) > 1 else kwargs.get("byteorder", "big")
    signed = kwargs.get("signed", False)
    if isinstance(data, (list, tuple)):
        data = b_bytes(I, [data], {})
    if isinstance(data, (bytes, bytearray)):
        return int.from_bytes(bytes(data), order, signed=signed)
    sb = as_sbytes(data)
    little = order == "little"
    n = sb.length()
    if len(sb.segs) == 1 and isinstance(sb.segs[0], IE) and sb.segs[0].little == little:
        u = sb.segs[0].x
        if not signed:
            return wrap_int(u)
        w = sb.segs[0].w
        org = ctx.int_origin.get(("enc", u.get_id()))
        if org is not None:
            return wrap_int(org[0])     # the signed value this encoding was made from
        t = z3.If(u >= 2 ** (8 * w - 1), u - 2 ** (8 * w), u)
        r = wrap_int(t)
        if isinstance(r, SInt):
            ctx.keep.append(r.t)
            ctx.int_origin[("signed", r.t.get_id())] = (r.t, sb, little, w)
        return r
    if not isinstance(n, int):
        # symbolic length: uninterpreted value function with range and monotone facts
        facts = []
        arr, ln = reify(sb, facts)
        f = ctx.uf("bytes_val_" + ("le" if little else "be"), z3.ArraySort(z3.IntSort(), z3.IntSort()), z3.IntSort(), z3.IntSort())
        t = f(arr, ln)
        ctx.fact(t >= 0)
        from .builtins_ import pow2
        ctx.fact(t < pow2(I, z3.simplify(8 * ln)))
        if signed:
            raise Unsupported("signed from_bytes of symbolic length")
        ctx.keep.append(t)
        ctx.int_origin[t.get_id()] = (t, sb, little, None)
        return wrap_int(t)
    if n > 80:
        raise Unsupported("from_bytes of more than 80 symbolic bytes")
    facts = []
    terms = []
    for k in range(n):
        e = k if little else n - 1 - k
        b = sb.at(k, facts)
        terms.append(b * z3.IntVal(256 ** e) if e else b)
    for f in facts:
        ctx.fact(f)
    t = z3.simplify(z3.Sum(terms)) if terms else z3.IntVal(0)
    if signed:
        t = z3.If(t >= 2 ** (8 * n - 1), t - 2 ** (8 * n), t)
        r = wrap_int(t)
        if isinstance(r, SInt):
            ctx.keep.append(r.t)
            ctx.int_origin[("signed", r.t.get_id())] = (r.t, sb, little, n)
            ctx.fact(z3.And(r.t >= -(2 ** (8 * n - 1)), r.t < 2 ** (8 * n - 1)))
        return r
    r = wrap_int(t)
    if isinstance(r, SInt) and not signed:
        ctx.keep.append(r.t)
        ctx.int_origin[r.t.get_id()] = (r.t, sb, little, n)
        ctx.fact(z3.And(r.t >= 0, r.t < 256 ** n))
    return r


def int_to_bytes(I, x, args, kwargs):
    ctx = I.ctx
    length = args[0] if args else kwargs.get("length", 1)
    order = args[1] if len(args) > 1 else kwargs.get("byteorder", "big")
    signed = kwargs.get("signed", False)
    if not _sym(x) and not _sym(length):
        return _native_call(int(x).to_bytes, [length, order], {"signed": signed})
    if not isinstance(length, int):
        raise Unsupported("to_bytes with symbolic length")
    little = order == "little"
    t = zi(x)
    w = length
    if signed:
        I.safety("to_bytes_overflow", wrap_bool(z3.And(t >= -(2 ** (8 * w - 1)), t < 2 ** (8 * w - 1))), OverflowError)
        org = ctx.int_origin.get(("signed", t.get_id()))
        if org is not None and org[2] == little and org[3] == w:
            return norm_bytes(org[1])
        u = z3.simplify(z3.If(t < 0, t + 2 ** (8 * w), t))
        ctx.keep.append(u)
        ctx.keep.append(t)
        ctx.int_origin[("enc", u.get_id())] = (t,)
        t = u
    else:
        I.safety("to_bytes_overflow", wrap_bool(z3.And(t >= 0, t < 256 ** w)), OverflowError)
    org = ctx.int_origin.get(t.get_id()) if z3.is_expr(t) else None
    if org is not None and org[2] == little and org[3] == w:
        return norm_bytes(org[1])
    if w == 0:
        return b""
    return SBytes((IE(t, w, little),))


def bit_length(I, x):
    ctx = I.ctx
    if isinstance(x, int):
        return x.bit_length()
    if isinstance(x, SBV):
        x = SInt(zi(x))
    t = zi(x)
    key0 = ("bitlen_split", t.get_id())
    if key0 in ctx.divmod_cache:
        return ctx.divmod_cache[key0][1]
    # finite case split when the operand is confined to a machine-size range by the path
    # condition: the bit length becomes concrete on each path (complete: every value covered)
    for K in (264,):
        if ctx.entails(z3.And(t > -(2 ** K), t < 2 ** K), ms=4000):
            a = z3.If(t < 0, -t, t)
            # already pinned by the path condition?
            from .ctx import _budget
            _budget(ctx.solver, ctx.feas_ms)
            if ctx.solver.check() == z3.sat:
                mv = ctx.solver.model().eval(t, model_completion=True)
                if z3.is_int_value(mv):
                    b0 = abs(mv.as_long()).bit_length()
                    cond = (t == 0) if b0 == 0 else z3.And(a >= 2 ** (b0 - 1), a < 2 ** b0)
                    if ctx.entails(cond):
                        ctx.divmod_cache[key0] = (t, b0)
                        return b0
            if ctx.branch(t == 0):
                r = 0
            else:
                r = K
                for b in range(1, K):
                    if ctx.branch(a < 2 ** b):
                        r = b
                        break
                ctx.fact(a >= 2 ** (r - 1))
            ctx.divmod_cache[key0] = (t, r)
            return r
    f = ctx.uf("bitlen", z3.IntSort(), z3.IntSort())
    bl = f(t)
    key = ("bitlen", t.get_id())
    if key not in ctx.divmod_cache:
        ctx.divmod_cache[key] = (t,)
        from .builtins_ import pow2
        a = z3.If(t < 0, -t, t)
        ctx.fact(bl >= 0)
        ctx.fact(z3.Implies(t == 0, bl == 0))
        ctx.fact(z3.Implies(t != 0, z3.And(bl >= 1, pow2(I, bl - 1) <= a, a < pow2(I, bl))))
    return wrap_int(bl)


def stream_method(I, st, name, args, kwargs):
    ctx = I.ctx
    from .builtins_ import sub_bytes
    buf = as_sbytes(st.buf)
    n = buf.length()
    if name == "read":
        size = args[0] if args else kwargs.get("size", None)
        if isinstance(size, SInt):
            v = ctx.value_if_determined(size.t)
            if v is not None:
                size = v
        if isinstance(st.pos, SInt):
            v = ctx.value_if_determined(st.pos.t)
            if v is not None:
                st.pos = v
        pos = st.pos
        if size is None or (isinstance(size, int) and size < 0):
            hi = n
        else:
            if isinstance(size, (SInt, SBool)):
                sz = zi(size)
                if not ctx.entails(sz >= 0):
                    if not ctx.branch(sz >= 0):
                        hi = n
                        sz = None
                if sz is not None:
                    e = zi(pos) + sz
                    hi = z3.simplify(z3.If(e > zint(n), zint(n), e))
            else:
                e = zi(pos) + size if not isinstance(pos, int) else pos + size
                if isinstance(e, int) and isinstance(n, int):
                    hi = min(e, n)
                else:
                    e = zint(e)
                    hi = z3.simplify(z3.If(e > zint(n), zint(n), e))
        lo = pos if isinstance(pos, int) else pos.t
        # invariant of the model: 0 <= pos <= len(buf)  (seek beyond the end is unsupported)
        if isinstance(hi, int) and isinstance(lo, int):
            out = sub_bytes(I, buf, lo, hi)
            st.pos = hi
        else:
            # a short read is a distinct path: decide it now so that lengths stay simple
            full = None
            if size is not None and not (isinstance(size, int) and size < 0):
                e = z3.simplify(zi(pos) + zi(size))
                if ctx.branch(e <= zint(n)):
                    hi = e
                else:
                    hi = zint(n)
            out = sub_bytes(I, buf, lo, hi)
            hs = z3.simplify(zint(hi))
            st.pos = hs.as_long() if z3.is_int_value(hs) else SInt(hs)
        return out
    if name == "tell":
        return st.pos
    if name == "seek":
        off = args[0]
        whence = args[1] if len(args) > 1 else 0
        if whence == 0:
            newpos = off
        elif whence == 1:
            from .builtins_ import binop
            newpos = binop(I, "+", st.pos, off)
        elif whence == 2:
            from .builtins_ import binop
            newpos = binop(I, "+", n if isinstance(n, int) else SInt(n), off)
        else:
            raise Unsupported("seek whence")
        t = zi(newpos)
        ok = z3.And(t >= 0, t <= zint(n))
        if not ctx.entails(ok):
            I.safety("seek_range", wrap_bool(t >= 0), ValueError)
            if not ctx.entails(t <= zint(n)):
                raise Unsupported("seek beyond the end of the stream")
        st.pos = newpos
        return newpos
    if name == "getvalue":
        return st.buf
    if name == "getbuffer":
        return st.buf
    if name in ("close", "flush"):
        return None
    if name == "write":
        raise Unsupported("BytesIO.write")
    raise Unsupported(f"stream method {name}")


def bytes_method(I, obj, name, args, kwargs):
    ctx = I.ctx
    sb = as_sbytes(obj)
    if name == "hex":
        return Opaque("str")
    if name in ("startswith", "endswith"):
        pre = args[0]
        if isinstance(pre, tuple):
            rs = [bytes_method(I, obj, name, [p], {}) for p in pre]
            return b_any(I, [rs], {})
        from .builtins_ import slice_value
        if not is_byteslike(pre):
            raise_py(TypeError, "startswith arg must be bytes")
        ln = as_sbytes(pre).length()
        if name == "startswith":
            part = slice_value(I, obj, slice(None, ln if isinstance(ln, int) else SInt(ln), None))
        else:
            if not isinstance(ln, int):
                raise Unsupported("endswith symbolic")
            part = slice_value(I, obj, slice(-ln, None, None)) if ln else b""
        e = bytes_eq(part, pre, ctx)
        return e if isinstance(e, bool) else wrap_bool(e)
    if name == "join":
        r = b""
        vals = iterate(I, args[0])
        for i, x in enumerate(vals):
            if i:
                r = bytes_concat(r, obj)
            r = bytes_concat(r, x)
        return r
    if name == "decode":
        return Opaque("str")
    if name == "copy":
        return SBytes(sb.segs, mutable=sb.mutable)
    if name == "rjust" or name == "ljust" or name == "zfill":
        n = sb.length()
        w = args[0]
        fill = args[1] if len(args) > 1 else (b"0" if name == "zfill" else b" ")
        if isinstance(n, int) and isinstance(w, int):
            pad = fill * max(w - n, 0)
            return bytes_concat(pad, sb) if name != "ljust" else bytes_concat(sb, pad)
        raise Unsupported("bytes justification with symbolic length")
    if name in ("lstrip", "rstrip", "strip", "split", "find", "index", "count", "replace", "lower", "upper"):
        raise Unsupported(f"bytes.{name} on symbolic bytes")
    if name == "extend" and sb.mutable:
        raise Unsupported("bytearray.extend on symbolic")
    raise Unsupported(f"bytes method {name}")


def list_method(I, obj, name, args, kwargs):
    if name == "append":
        obj.append(args[0])
        return None
    if name == "extend":
        obj.extend(iterate(I, args[0]))
        return None
    if name == "pop":
        if not obj:
            I.safety("pop_empty", False, IndexError)
            raise_py(IndexError, "pop from empty list")
        if args:
            if _sym(args[0]):
                raise Unsupported("list.pop with symbolic index")
            from .builtins_ import _norm_index
            k = _norm_index(I, args[0], len(obj), "index")
            return obj.pop(k)
        return obj.pop()
    if name == "insert":
        if _sym(args[0]):
            raise Unsupported("list.insert with symbolic index")
        obj.insert(args[0], args[1])
        return None
    if name == "reverse":
        obj.reverse()
        return None
    if name == "clear":
        obj.clear()
        return None
    if name == "copy":
        return list(obj)
    if name == "sort":
        r = b_sorted(I, [obj], kwargs)
        obj[:] = r
        return None
    if name == "index":
        for k, x in enumerate(obj):
            e = values_equal(x, args[0], I.ctx)
            if e is True or (e is not False and I.ctx.branch(e)):
                return k
        I.safety("list_index_missing", False, ValueError)
        raise_py(ValueError, "not in list")
    if name == "count":
        from .builtins_ import binop
        c = 0
        for x in obj:
            e = values_equal(x, args[0], I.ctx)
            if e is True:
                c = binop(I, "+", c, 1)
            elif e is not False:
                c = binop(I, "+", c, wrap_bool(e))
        return c
    if name == "remove":
        for k, x in enumerate(obj):
            e = values_equal(x, args[0], I.ctx)
            if e is True or (e is not False and I.ctx.branch(e)):
                del obj[k]
                return None
        I.safety("list_remove_missing", False, ValueError)
        raise_py(ValueError, "not in list")
    raise Unsupported(f"list method {name}")


def dict_method(I, obj, name, args, kwargs):
    if name in ("get", "pop", "setdefault", "__contains__", "__getitem__") and args and _sym(args[0]):
        if name == "get":
            for kk in obj:
                e = values_equal(args[0], kk, I.ctx)
                if e is True or (e is not False and I.ctx.branch(e)):
                    return obj[kk]
            return args[1] if len(args) > 1 else None
        raise Unsupported("symbolic dict key")
    if name == "get":
        try:
            return obj.get(*args)
        except TypeError as e:
            raise PyRaise(ExcVal(TypeError, e.args))
    if name == "items":
        return list(obj.items())
    if name == "keys":
        return list(obj.keys())
    if name == "values":
        return list(obj.values())
    if name == "update":
        if args:
            if isinstance(args[0], dict):
                obj.update(args[0])
            else:
                for kv in iterate(I, args[0]):
                    kk, vv = iterate(I, kv)
                    obj[kk] = vv
        obj.update(kwargs)
        return None
    if name == "pop":
        if args[0] not in obj:
            if len(args) > 1:
                return args[1]
            I.safety("dict_key", False, KeyError)
            raise_py(KeyError, args[0])
        return obj.pop(args[0])
    if name == "setdefault":
        return obj.setdefault(*args)
    if name == "copy":
        return dict(obj)
    if name == "clear":
        obj.clear()
        return None
    raise Unsupported(f"dict method {name}")


def slist_method(I, sl, name, args, kwargs):
    from .builtins_ import pack_elem, list_elem
    if name == "append":
        sl.arr = z3.Store(sl.arr, sl.n, pack_elem(I, args[0], sl.kind))
        sl.n = z3.simplify(sl.n + 1)
        return None
    if name == "pop" and not args:
        I.safety("pop_empty", wrap_bool(sl.n > 0), IndexError)
        v = list_elem(I, sl, z3.simplify(sl.n - 1))
        sl.n = z3.simplify(sl.n - 1)
        return v
    if name == "copy":
        return SList(sl.arr, sl.n, sl.kind)
    raise Unsupported(f"method {name} on list of symbolic length")


def opaque_attr(I, base, name):
    if base.kind == "timedelta" and name == "total_seconds":
        return Opaque("tdmethod", base.t)
    if base.kind == "str":
        from .interp import BoundMethod
        return Opaque("strmethod", info=name)
    if base.kind == "strmethod":
        return Opaque("str")
    raise Unsupported(f"attribute {name} of opaque {base.kind}")


def fmt_symbolic(I, n, v, x, parts, fr):
    return Opaque("str")
