"""Extra engines a property's check runs besides the per-function obligations."""
from __future__ import annotations

import os
import re
import subprocess
import time

from . import VERIF


def lean_preamble(prop, tier, seed):
    """re-check lean/Preamble.lean (the link from the chord / tangent formulas to Mathlib's
    group of points); every theorem in it is one obligation"""
    path = os.path.join(VERIF, "lean", "Preamble.lean")
    src = open(path).read()
    names = re.findall(r"^theorem (\w+)", src, re.M)
    bad_words = [w for w in ("sorry", "admit", "native_decide", "axiom ") if re.search(r"\b" + w, re.sub(r"/-.*?-/", "", src, flags=re.S))]
    t0 = time.time()
    try:
        p = subprocess.run(["lean", path], capture_output=True, text=True, timeout=1500, cwd=os.path.dirname(path))
        out = (p.stdout + p.stderr)
        ok = p.returncode == 0 and "error" not in out and not bad_words
    except subprocess.TimeoutExpired:
        ok, out = False, "lean: timeout"
    secs = time.time() - t0
    r = dict(name="lean/Preamble.lean", backend="lean", obligations=len(names), discharged=len(names) if ok else 0, secs=secs,
             functions=[dict(target="lean/Preamble.lean", kind="lean-preamble", theorems=names, secs=round(secs, 1))],
             samples=[dict(obligation="sw_add_of_X_ne", backend="lean", goal="Point.some x1 y1 + Point.some x2 y2 = Point.some (lam^2 - x1 - x2) (lam (x1 - x3) - y1)")])
    if not ok:
        r["crashes"] = ["lean/Preamble.lean does not check: " + (", ".join(bad_words) or out[-800:])]
    return [r]
