"""Decorators used by contract files (/verif/contracts/*.py).

Dependency-free on purpose: contract files are imported both by the prover
(python3-vt, with z3) and by the native replay / bounded runner
(/venv/bin/python, without z3).

A contract is a class whose functions are clauses, all written in the Python
subset the generator executes (and plain Python natively):

    @contract("btclib.var_int._size", types=dict(i="int"))
    class _size:
        def pre(i): ...                      # precondition (default True)
        def post_<label>(i, result): ...     # postcondition on normal return
        def raises_<Exc>(i): ...             # raises Exc  IFF  condition
        def raises_<Exc>_if(i): ...          # condition => raises Exc      (one direction)
        def raises_<Exc>_only_if(i): ...     # raises Exc => condition      (one direction)
        def model(i): ...                    # functional spec program: same result,
                                             # same exception class, same effect on streams
        def inv<k>_<label>(locals...): ...   # invariant of the k-th loop (ordinal in the body)
        def dec<k>(locals...): ...           # variant of the k-th loop

Clause parameters are bound by name: a parameter of the function, `result`,
`<param>0` (value of a parameter at entry), a local variable (loop clauses),
`_k` (iterations completed, `for` loops).
"""
from __future__ import annotations

REGISTRY = []        # list of dict(kind, target, cls, module, options...)


def contract(target, types=None, returns=None, **options):
    def deco(cls):
        REGISTRY.append(dict(kind="contract", target=target, cls=cls, module=cls.__module__,
                             name=cls.__name__, types=types or {}, returns=returns, options=options))
        return cls
    return deco


def lemma(name, types=None, **options):
    """A lemma is a function of the contract module that must return a true value on
    every path for all values of its parameters (of the declared types) that satisfy
    its leading `assume(...)` calls."""
    def deco(fn):
        REGISTRY.append(dict(kind="lemma", target=name, fn=fn, module=fn.__module__,
                             name=fn.__name__, types=types or {}, options=options))
        return fn
    return deco


def shape(target, fields=None, **options):
    """Symbolic shape of instances of a class of /repo: field types and an invariant
    `def inv(self)` assumed of every symbolic instance (and proved of constructed ones
    where a contract says so)."""
    def deco(cls):
        REGISTRY.append(dict(kind="shape", target=target, cls=cls, module=cls.__module__,
                             name=cls.__name__, fields=fields or {}, options=options))
        return cls
    return deco


def assume(cond):
    """native meaning: skip the case (used by lemmas and the bounded runner)"""
    if not cond:
        raise AssumptionFailed()


class AssumptionFailed(Exception):
    pass


def implies(a, b):
    return (not a) or b
