"""Native side: run the same contracts on the real functions under CPython.

Used for (a) replaying a verifier counter-model against the real code,
(b) bounded stand-ins (stated bound, never counted as proved), (c) the
CPython cross-check of the encoder.  No z3 import here: this file runs under
/venv/bin/python (repository interpreter, bindings present) as well.

usage:  python -m pyvc.native replay <replay.json>
        python -m pyvc.native bounded <contract module> <name> <n> <seed>
"""
from __future__ import annotations

import copy
import importlib
import io
import json
import random
import re
import sys
import traceback

from . import api


def split_top(s, sep=","):
    out, depth, cur = [], 0, ""
    for ch in s:
        if ch in "[{(":
            depth += 1
        elif ch in "]})":
            depth -= 1
        if ch == sep and depth == 0:
            out.append(cur.strip())
            cur = ""
        else:
            cur += ch
    if cur.strip():
        out.append(cur.strip())
    return out


class NStream(io.BytesIO):
    """BytesIO exposing the two observables contracts speak about"""

    @property
    def pos(self):
        return self.tell()

    @property
    def buf(self):
        return self.getvalue()


class Frozen:
    def __init__(self, **kw):
        self.__dict__.update(kw)


SHAPES = {}


def load(modname):
    importlib.import_module(modname)
    for e in api.REGISTRY:
        if e["kind"] == "shape":
            SHAPES[e["target"]] = e
            SHAPES[e["target"].rsplit(".", 1)[-1]] = e


def resolve(target):
    parts = target.split(".")
    for k in range(len(parts) - 1, 0, -1):
        try:
            obj = importlib.import_module(".".join(parts[:k]))
        except ImportError:
            continue
        try:
            for p in parts[k:]:
                obj = getattr(obj, p)
        except AttributeError:
            continue
        return getattr(obj, "__wrapped__", obj) if False else obj
    raise LookupError(target)


# ---------------------------------------------------------------- values from a model
def build_value(name, typ, flat, shape_choice):
    typ = typ.strip()
    if typ == "int" or re.fullmatch(r"u\d+|bv\d+|int\[.*\]", typ):
        return int(flat.get(name, 0))
    if typ == "bool":
        return bool(flat.get(name, False))
    if typ == "none":
        return None
    m = re.fullmatch(r"const\((.*)\)", typ)
    if m:
        import ast
        return ast.literal_eval(m.group(1))
    m = re.fullmatch(r"live\((.*)\)", typ)
    if m:
        modname, _, attr = m.group(1).rpartition(".")
        return getattr(importlib.import_module(modname), attr)
    if typ.startswith("bytes") or typ.startswith("bytearray"):
        v = flat.get(name, {"hex": ""})
        b = bytes.fromhex(v["hex"])
        m = re.fullmatch(r"(bytes|bytearray)\[(\d+)\]", typ)
        if m and len(b) != int(m.group(2)):
            b = b.ljust(int(m.group(2)), b"\0")[: int(m.group(2))]
        return bytearray(b) if typ.startswith("bytearray") else b
    if typ == "stream":
        v = flat.get(name, {"hex": "", "pos": 0})
        s = NStream(bytes.fromhex(v["hex"]))
        s.seek(v.get("pos", 0))
        return s
    if typ == "datetime":
        import datetime as _dt
        return _dt.datetime.fromtimestamp(int(flat.get(name, 0)), tz=_dt.timezone.utc)
    if typ == "str":
        return flat.get(name, "")
    if typ.startswith("tuple["):
        parts = split_top(typ[6:-1])
        return tuple(build_value(f"{name}.{k}", p, flat, shape_choice) for k, p in enumerate(parts))
    if typ.startswith("opt["):
        if shape_choice.get(name + ".isnone", flat.get(name + ".isnone", False)):
            return None
        return build_value(name, typ[4:-1], flat, shape_choice)
    if typ.startswith("oneof["):
        parts = split_top(typ[6:-1], "|")
        return build_value(name, parts[shape_choice.get(name + ".alt", 0)], flat, shape_choice)
    m = re.fullmatch(r"list\[(.*);\s*(\d+)\]", typ)
    if m:
        return [build_value(f"{name}.{k}", m.group(1), flat, shape_choice) for k in range(int(m.group(2)))]
    m = re.fullmatch(r"list\[(.*);\s*(\d+)\.\.(\d+)\]", typ)
    if m:
        n = shape_choice.get(name + ".len", int(m.group(2)))
        return [build_value(f"{name}.{k}", m.group(1), flat, shape_choice) for k in range(n)]
    if typ.startswith("list["):
        v = flat.get(name, {"list": []})
        et = typ[5:-1].strip()
        out = []
        for x in v["list"]:
            if et == "int":
                out.append(int(str(x).replace("(- ", "-").replace(")", "").replace(" ", "")) if not isinstance(x, int) else x)
            elif et == "bool":
                out.append(str(x) == "True")
            else:
                out.append(x)
        return out
    if typ.startswith("obj:"):
        sh = SHAPES[typ[4:]]
        fields = {f: build_value(f"{name}.{f}", t, flat, shape_choice) for f, t in sh["fields"].items()}
        build = sh["cls"].__dict__.get("build")
        if build is None:
            raise LookupError(f"shape {typ[4:]} has no native `build`")
        return build(**fields)
    raise LookupError(f"type spec {typ}")


def snap(v):
    if isinstance(v, io.BytesIO):
        return Frozen(buf=v.getvalue(), pos=v.tell())
    try:
        return copy.deepcopy(v)
    except Exception:  # noqa: BLE001
        return v


def clone_arg(v):
    if isinstance(v, io.BytesIO):
        s = NStream(v.getvalue())
        s.seek(v.tell())
        return s
    try:
        return copy.deepcopy(v)
    except Exception:  # noqa: BLE001
        return v


def call_clause(fn, ns):
    import inspect
    params = list(inspect.signature(fn).parameters)
    return fn(*[ns[p] for p in params])


def same_value(a, b):
    if isinstance(a, io.BytesIO) or isinstance(b, io.BytesIO):
        return True
    return a == b and type(a) is type(b) or a == b


def _set_arm(serving):
    try:
        from btclib.curves.curve import is_libsecp256k1_serving, set_libsecp256k1_serving
        was = is_libsecp256k1_serving()
        set_libsecp256k1_serving(serving=serving)
        return was
    except Exception:  # noqa: BLE001  bindings not installed
        return None


def native_check(entry, args):
    """with option both_arms: run on the libsecp256k1 arm and on the Python arm (C04: the two
    are observationally identical) and hold both against the contract"""
    if not entry.get("options", {}).get("both_arms"):
        return native_check_one(entry, args)
    was = _set_arm(True)
    if was is None:
        return native_check_one(entry, args)
    try:
        a_args = {k: clone_arg(v) for k, v in args.items()}
        st1, bad1, d1 = native_check_one(entry, a_args)
        _set_arm(False)
        st2, bad2, d2 = native_check_one(entry, args)
    finally:
        _set_arm(was)
    if st1 == "pre-false" and st2 == "pre-false":
        return st1, [], ""
    bad = ["bindings:" + b for b in bad1] + ["python:" + b for b in bad2]
    o1, o2 = d1.split(" | ")[0], d2.split(" | ")[0]
    if _outcome_key(o1) != _outcome_key(o2):
        bad.append("arms.differ")
    detail = f"bindings: {d1} || python: {d2}"
    return ("violated" if bad else "ok"), bad, detail


def _outcome_key(o):
    """same value, or same exception class (messages may differ)"""
    if o.startswith("outcome=raise:"):
        return "raise:" + o[len("outcome=raise:"):].split("(")[0]
    return o


def native_check_one(entry, args):
    """run the real function on concrete arguments (dict name -> value) and evaluate every
    clause of its contract; returns (status, [violated clause names], detail)"""
    cls = entry["cls"]
    clauses = {k: v for k, v in cls.__dict__.items() if callable(v) and not k.startswith("__")}
    fn = resolve(entry["target"])
    ns = dict(args)
    entry_vals = {k: snap(v) for k, v in args.items()}
    for k, v in entry_vals.items():
        ns[k + "0"] = v
    try:
        if "pre" in clauses and not call_clause(clauses["pre"], ns):
            return "pre-false", [], ""
    except Exception as e:  # noqa: BLE001
        return "pre-false", [], f"pre raised {type(e).__name__}"
    margs = {k: clone_arg(v) for k, v in args.items()}
    try:
        res = fn(*[ns[p] for p in _params(fn) if p in ns])
        out = ("ret", res)
    except Exception as e:  # noqa: BLE001
        out = ("raise", e)
    bad = []
    detail = []
    raises = []
    for name, c in clauses.items():
        if name.startswith("raises_"):
            rest, mode = name[7:], "iff"
            if rest.endswith("_only_if"):
                rest, mode = rest[:-8], "only_if"
            elif rest.endswith("_if"):
                rest, mode = rest[:-3], "if"
            raises.append((rest, mode, c))
    ens = dict(ns)
    for k, v in entry_vals.items():
        if not isinstance(v, Frozen):
            ens[k] = v
    mod = importlib.import_module(entry["module"])
    if out[0] == "ret":
        ns["result"] = out[1]
        for rest, mode, c in raises:
            if mode in ("iff", "if") and call_clause(c, ens):
                bad.append(f"raises.{rest}.if")
        for name, c in clauses.items():
            if name.startswith("post"):
                try:
                    ok = call_clause(c, ns)
                except Exception as e:  # noqa: BLE001
                    ok = False
                    detail.append(f"{name} raised {type(e).__name__}: {e}")
                if not ok:
                    bad.append(name)
    else:
        e = out[1]
        matched = False
        for rest, mode, c in raises:
            decl = getattr(mod, rest, None) or getattr(__import__("builtins"), rest, None)
            if decl is not None and isinstance(e, decl):
                matched = True
                if mode in ("iff", "only_if") and not call_clause(c, ens):
                    bad.append(f"raises.{rest}.only_if")
        if not matched and "model" not in clauses:
            bad.append(f"raises.undeclared.{type(e).__name__}")
            detail.append("".join(traceback.format_exception_only(type(e), e)).strip())
    if "model" in clauses:
        try:
            mres = call_clause(clauses["model"], margs)
            mout = ("ret", mres)
        except Exception as e:  # noqa: BLE001
            mout = ("raise", e)
        if out[0] == "ret" and mout[0] == "ret":
            if not same_value(out[1], mout[1]):
                bad.append("model.result")
                detail.append(f"code returned {out[1]!r}, spec {mout[1]!r}")
            for k, v in args.items():
                if isinstance(v, io.BytesIO) and v.tell() != margs[k].tell():
                    bad.append(f"model.stream_pos.{k}")
        elif out[0] == "raise" and mout[0] == "raise":
            if not isinstance(out[1], type(mout[1])):
                bad.append(f"model.raises.{type(mout[1]).__name__}")
                detail.append(f"code raised {type(out[1]).__name__}, spec {type(mout[1]).__name__}")
        elif out[0] == "ret":
            bad.append(f"model.raises.{type(mout[1]).__name__}.if")
            detail.append(f"code returned {out[1]!r}, spec raises {type(mout[1]).__name__}")
        else:
            bad.append(f"model.raises.{type(out[1]).__name__}.only_if")
            detail.append(f"code raised {type(out[1]).__name__}: {out[1]}, spec returned {mout[1]!r}")
    desc = f"outcome={out[0]}:{_short(out[1])}"
    return ("violated" if bad else "ok"), bad, desc + (" | " + "; ".join(detail) if detail else "")


def _short(v):
    r = repr(v)
    return r if len(r) < 200 else r[:200] + "..."


def _params(fn):
    import inspect
    try:
        return list(inspect.signature(fn).parameters)
    except (TypeError, ValueError):
        return []


def native_lemma(entry, args):
    fn = entry["fn"]
    try:
        r = fn(*[args[p] for p in _params(fn)])
    except api.AssumptionFailed:
        return "pre-false", [], ""
    except Exception as e:  # noqa: BLE001
        return "violated", [f"lemma.{entry['target']}.no_exception.{type(e).__name__}"], "".join(traceback.format_exception_only(type(e), e)).strip()
    return ("ok", [], "") if r else ("violated", [f"lemma.{entry['target']}"], f"returned {r!r}")


def find_entry(modname, name):
    load(modname)
    for e in api.REGISTRY:
        if e["module"] == modname and (e["name"] == name or e["target"] == name):
            return e
    raise LookupError(f"{modname}:{name}")


def args_from_model(entry, model):
    flat = model.get("inputs", model)
    shape_choice = model.get("shape", {})
    args = {}
    types = entry["types"]
    if entry["kind"] == "contract":
        fn = resolve(entry["target"])
        names = [p for p in _params(fn) if p in types]
    else:
        names = [p for p in _params(entry["fn"])]
    for p in names:
        args[p] = build_value(p, types[p], flat, shape_choice)
    return args


def replay_bounded(rp):
    """a failure of a bounded stand-in: regenerate the same draw (seed, draw number) and evaluate
    that one input on the real code"""
    fl = rp["failure"]
    e = find_entry(rp["module"], rp["name"])
    rng = random.Random(fl["seed"])
    gen = e.get("options", {}).get("gen")
    types = e["types"]
    if e["kind"] == "contract":
        names = [p for p in _params(resolve(e["target"])) if p in types]
    else:
        names = _params(e["fn"])
    args = None
    for _ in range(fl["draw"]):
        try:
            args = gen(rng) if gen is not None else {p: gen_value(rng, types[p]) for p in names}
        except LookupError:
            raise
        except Exception:  # noqa: BLE001  as in bounded(): an invalid draw is skipped
            args = None
    if args is None:
        print("NO-INPUT: the draw could not be regenerated")
        return 2
    if e["kind"] == "contract":
        status, bad, detail = native_check(e, args)
    else:
        status, bad, detail = native_lemma(e, args)
    print(json.dumps(dict(status=status, violated=bad, detail=detail, args={k: _short(v) for k, v in args.items()})))
    return 1 if status == "violated" else 0


def replay(path):
    with open(path) as f:
        rp = json.load(f)
    if rp.get("bounded"):
        return replay_bounded(rp)
    e = find_entry(rp["contract_module"], rp["contract_name"])
    if rp.get("model") is None:
        print("NO-MODEL: the verifier gave no counter-model for", rp["obligation"])
        return 2
    args = args_from_model(e, rp["model"])
    if e["kind"] == "contract":
        status, bad, detail = native_check(e, args)
    else:
        status, bad, detail = native_lemma(e, args)
    print(json.dumps(dict(status=status, violated=bad, detail=detail, args={k: _short(v) for k, v in args.items()})))
    return 1 if status == "violated" else 0


# ---------------------------------------------------------------- bounded stand-in
BOUNDARY_INTS = [0, 1, 2, 3, 127, 128, 252, 253, 254, 255, 256, 0xFFFF, 0x10000, 0xFFFFFFFF, 0x100000000,
                 2**63 - 1, 2**63, 2**64 - 1, 2**64, -1, -2, -128, -255, -256, 2**31 - 1, 2**31, 2**255, 2**256 - 1]


def gen_value(rng, typ, depth=0):
    typ = typ.strip()
    m = re.fullmatch(r"u(\d+)", typ)
    if typ == "int" or m or re.fullmatch(r"bv\d+", typ):
        hi = 2 ** int(m.group(1)) if m else None
        m2 = re.fullmatch(r"bv(\d+)", typ)
        if m2:
            hi = 2 ** int(m2.group(1))
        c = rng.random()
        if c < 0.4:
            v = rng.choice(BOUNDARY_INTS) + rng.choice([-1, 0, 0, 1])
        elif c < 0.7:
            v = rng.randrange(-4, 300)
        else:
            v = rng.getrandbits(rng.choice([8, 16, 32, 64, 128, 256])) * rng.choice([1, 1, 1, -1])
        if hi is not None:
            v = abs(v) % hi
        return v
    m = re.fullmatch(r"int\[(-?\w+)\.\.(-?\w+)\]", typ)
    if m:
        lo, hi = int(m.group(1), 0), int(m.group(2), 0)
        c = rng.random()
        if c < 0.3:
            return rng.choice([lo, hi, min(lo + 1, hi), max(hi - 1, lo)])
        return rng.randint(lo, hi)
    if typ == "bool":
        return rng.random() < 0.5
    if typ == "none":
        return None
    if typ.startswith("const(") or typ.startswith("live("):
        return build_value("x", typ, {}, {})
    m = re.fullmatch(r"(bytes|bytearray)\[(\d+)\]", typ)
    if m:
        b = bytes(rng.getrandbits(8) if rng.random() < 0.7 else rng.choice([0, 0xFF, 0x80, 0x7F]) for _ in range(int(m.group(2))))
        return bytearray(b) if m.group(1) == "bytearray" else b
    m = re.fullmatch(r"bytes\[(\d+)\.\.(\d+)\]", typ)
    if m:
        n = rng.randint(int(m.group(1)), int(m.group(2)))
        return bytes(rng.getrandbits(8) for _ in range(n))
    if typ in ("bytes", "bytearray"):
        n = rng.choice([0, 1, 2, 3, 4, 5, 8, 9, 20, 32, 33, 64, 65, 80, rng.randrange(0, 300)])
        b = bytes(rng.getrandbits(8) if rng.random() < 0.8 else rng.choice([0, 0xFD, 0xFE, 0xFF, 0x80]) for _ in range(n))
        return bytearray(b) if typ == "bytearray" else b
    if typ == "stream":
        b = gen_value(rng, "bytes")
        s = NStream(b)
        s.seek(rng.choice([0, 0, 0, min(1, len(b)), rng.randrange(0, len(b) + 1)]))
        return s
    if typ == "datetime":
        import datetime as _dt
        return _dt.datetime.fromtimestamp(rng.choice([0, 1231006505, 1700000000, rng.randrange(0, 2**32)]), tz=_dt.timezone.utc)
    if typ == "str":
        return "".join(rng.choice("abcXYZ019 /'") for _ in range(rng.randrange(0, 12)))
    if typ.startswith("tuple["):
        return tuple(gen_value(rng, p, depth + 1) for p in split_top(typ[6:-1]))
    if typ.startswith("opt["):
        return None if rng.random() < 0.25 else gen_value(rng, typ[4:-1], depth + 1)
    if typ.startswith("oneof["):
        return gen_value(rng, rng.choice(split_top(typ[6:-1], "|")), depth + 1)
    m = re.fullmatch(r"list\[(.*);\s*(\d+)\]", typ)
    if m:
        return [gen_value(rng, m.group(1), depth + 1) for _ in range(int(m.group(2)))]
    m = re.fullmatch(r"list\[(.*);\s*(\d+)\.\.(\d+)\]", typ)
    if m:
        return [gen_value(rng, m.group(1), depth + 1) for _ in range(rng.randint(int(m.group(2)), int(m.group(3))))]
    if typ.startswith("list["):
        return [gen_value(rng, typ[5:-1], depth + 1) for _ in range(rng.choice([0, 1, 2, 3, 5, 8]))]
    if typ.startswith("obj:"):
        sh = SHAPES[typ[4:]]
        gen = sh["cls"].__dict__.get("gen")
        if gen is not None:
            return gen(rng)
        fields = {f: gen_value(rng, t, depth + 1) for f, t in sh["fields"].items()}
        return sh["cls"].__dict__["build"](**fields)
    raise LookupError(f"cannot generate {typ}")


def bounded(modname, name, n, seed, gen_override=None):
    e = find_entry(modname, name)
    rng = random.Random(seed)
    types = e["types"]
    if e["kind"] == "contract":
        fn = resolve(e["target"])
        names = [p for p in _params(fn) if p in types]
    else:
        names = _params(e["fn"])
    gen = e.get("options", {}).get("gen")
    evals = nontrivial = 0
    seen = set()
    failures = []
    tries = 0
    while evals < n and tries < 20 * n:
        tries += 1
        try:
            if gen is not None:
                try:
                    args = gen(rng)
                except LookupError:
                    raise
                except Exception:  # noqa: BLE001  the generator built an invalid object: skip
                    continue
            else:
                args = {p: gen_value(rng, types[p]) for p in names}
        except LookupError as ex:
            return dict(error=str(ex))
        key = repr({k: (v.getvalue(), v.tell()) if isinstance(v, io.BytesIO) else v for k, v in args.items()})
        shown = {k: _short(v.getvalue().hex() if isinstance(v, io.BytesIO) else v) for k, v in args.items()}
        if e["kind"] == "contract":
            status, bad, detail = native_check(e, args)
        else:
            status, bad, detail = native_lemma(e, args)
        if status == "pre-false":
            continue
        evals += 1
        if key not in seen:
            seen.add(key)
            nontrivial += 1
        if status == "violated":
            failures.append(dict(args=shown, violated=bad, detail=detail, seed=seed, draw=tries,
                                 args_full={k: repr(v)[:300000] for k, v in args.items() if len(repr(v)) >= 200}))
            if len(failures) >= 3:
                break
    return dict(evaluations=evals, distinct=nontrivial, tries=tries, failures=failures)


if __name__ == "__main__":
    if sys.argv[1] == "replay":
        sys.exit(replay(sys.argv[2]))
    if sys.argv[1] == "bounded":
        r = bounded(sys.argv[2], sys.argv[3], int(sys.argv[4]), int(sys.argv[5]))
        print(json.dumps(r))
        sys.exit(1 if r.get("failures") else 0)
