"""Operators over the value domain (ints, bools, bytes, tuples)."""
from __future__ import annotations

import z3

from .ctx import PathEnd
from .values import (CB, IE, SL, ExcVal, Obj, Opaque, SBool, SBV, SBytes, SInt, SList, SStream,
                     Unsupported, as_sbytes, bytes_concat, norm_bytes, zint)


class PyRaise(Exception):
    def __init__(self, exc):
        self.exc = exc


def raise_py(cls, *args):
    raise PyRaise(ExcVal(cls, args))


def is_intlike(v):
    return isinstance(v, (int, SInt, SBool, SBV)) and not isinstance(v, str)


def is_byteslike(v):
    return isinstance(v, (bytes, bytearray, SBytes))


def wrap_int(t):
    t = z3.simplify(t)
    if z3.is_int_value(t):
        return t.as_long()
    return SInt(t)


def wrap_bool(t):
    if isinstance(t, bool):
        return t
    t = z3.simplify(t)
    if z3.is_true(t):
        return True
    if z3.is_false(t):
        return False
    return SBool(t)


def zi(v):
    """value -> z3 Int term"""
    if isinstance(v, bool):
        return z3.IntVal(int(v))
    if isinstance(v, int):
        return z3.IntVal(v)
    if isinstance(v, SInt):
        return v.t
    if isinstance(v, SBool):
        return z3.If(v.t, z3.IntVal(1), z3.IntVal(0))
    if isinstance(v, SBV):
        return z3.BV2Int(v.t, False)
    raise Unsupported(f"integer expected, got {type(v).__name__}")


def truth(v):
    """Python truthiness -> bool or z3 Bool term"""
    if isinstance(v, SBool):
        return v.t
    if isinstance(v, SInt):
        return v.t != 0
    if isinstance(v, SBV):
        return v.t != 0
    if isinstance(v, SBytes):
        n = v.length()
        return n != 0 if isinstance(n, int) else n != 0
    if isinstance(v, SList):
        return v.n != 0
    if isinstance(v, (Obj, SStream, Opaque)):
        return True
    return bool(v)


def sbv_const(v, w):
    return z3.BitVecVal(v, w)


def to_sbv(v, w=None):
    if isinstance(v, SBV):
        return v
    if isinstance(v, bool):
        v = int(v)
    if isinstance(v, int):
        if v < 0:
            raise Unsupported("negative constant in bit-vector arithmetic")
        ww = max(v.bit_length(), 1)
        return SBV(z3.BitVecVal(v, ww), ww)
    raise Unsupported(f"cannot use {type(v).__name__} as bit-vector")


def sbv_norm(t, w):
    t = z3.simplify(t)
    if z3.is_bv_value(t):
        return t.as_long()
    return SBV(t, w)


def bv_binop(op, a, b):
    """exact (width-growing) bit-vector arithmetic on non-negative integers"""
    if op in ("<<", ">>"):
        if not isinstance(b, int) or isinstance(b, bool):
            raise Unsupported("symbolic shift amount in bit-vector arithmetic")
        a = to_sbv(a)
        if op == "<<":
            w = a.w + b
            return sbv_norm(z3.Concat(a.t, z3.BitVecVal(0, b)) if b else a.t, w)
        if b >= a.w:
            return 0
        w = a.w - b
        return sbv_norm(z3.Extract(a.w - 1, b, a.t), w)
    a = to_sbv(a)
    b = to_sbv(b)
    if op == "&":
        w = min(a.w, b.w)
        return sbv_norm(z3.Extract(w - 1, 0, a.t) & z3.Extract(w - 1, 0, b.t), w)
    if op in ("|", "^"):
        w = max(a.w, b.w)
        return sbv_norm(a.ext(w) | b.ext(w) if op == "|" else a.ext(w) ^ b.ext(w), w)
    if op == "+":
        w = max(a.w, b.w) + 1
        return sbv_norm(a.ext(w) + b.ext(w), w)
    if op == "*":
        w = a.w + b.w
        return sbv_norm(a.ext(w) * b.ext(w), w)
    raise Unsupported(f"bit-vector operator {op}")


def int_cmp(op, a, b):
    if isinstance(a, SBV) or isinstance(b, SBV):
        if isinstance(a, (int, SBV)) and isinstance(b, (int, SBV)) and (not isinstance(a, int) or a >= 0) and (not isinstance(b, int) or b >= 0):
            x = to_sbv(a)
            y = to_sbv(b)
            w = max(x.w, y.w)
            xa, ya = x.ext(w), y.ext(w)
            t = {"==": xa == ya, "!=": xa != ya, "<": z3.ULT(xa, ya), "<=": z3.ULE(xa, ya),
                 ">": z3.UGT(xa, ya), ">=": z3.UGE(xa, ya)}[op]
            return wrap_bool(t)
    x, y = zi(a), zi(b)
    t = {"==": x == y, "!=": x != y, "<": x < y, "<=": x <= y, ">": x > y, ">=": x >= y}[op]
    return wrap_bool(t)


def bytes_eq(a, b, ctx):
    """bool or z3 Bool: byte strings equal"""
    if isinstance(a, (bytes, bytearray)) and isinstance(b, (bytes, bytearray)):
        return bytes(a) == bytes(b)
    a, b = as_sbytes(a), as_sbytes(b)
    la, lb = a.length(), b.length()
    if isinstance(la, int) and isinstance(lb, int):
        if la != lb:
            return False
        facts = []
        conj = [a.at(k, facts) == b.at(k, facts) for k in range(la)]
        for f in facts:
            ctx.fact(f)
        return z3.simplify(z3.And(*conj)) if conj else True
    n = la if isinstance(la, int) else lb if isinstance(lb, int) else None
    if n is not None and n <= 80:
        facts = []
        conj = [zint(la) == zint(lb)] + [a.at(k, facts) == b.at(k, facts) for k in range(n)]
        for f in facts:
            ctx.fact(f)
        return z3.simplify(z3.And(*conj))
    # same segment structure?  compare segment-wise when shapes agree syntactically
    if len(a.segs) == len(b.segs) and all(_seg_same(x, y) for x, y in zip(a.segs, b.segs)):
        return True
    i = z3.Int(f"bi!{ctx.counter}")
    ctx.counter += 1
    facts = []
    body = z3.Implies(z3.And(i >= 0, i < zint(la)), a.at(i, None) == b.at(i, None))
    return z3.And(zint(la) == zint(lb), z3.ForAll([i], body))


def _seg_same(x, y):
    if type(x) is not type(y):
        return False
    if isinstance(x, CB):
        return x.data == y.data
    if isinstance(x, SL):
        return x.arr.eq(y.arr) and x.lo.eq(y.lo) and x.hi.eq(y.hi)
    if isinstance(x, IE):
        return x.w == y.w and x.little == y.little and z3.simplify(x.x).eq(z3.simplify(y.x))
    return False


def values_equal(a, b, ctx):
    """Python == on values: bool or z3 Bool"""
    if a is None or b is None:
        return a is None and b is None
    if is_intlike(a) and is_intlike(b):
        r = int_cmp("==", a, b)
        return r.t if isinstance(r, SBool) else r
    if is_byteslike(a) and is_byteslike(b):
        return bytes_eq(a, b, ctx)
    if isinstance(a, (tuple, list)) and isinstance(b, (tuple, list)):
        if isinstance(a, tuple) != isinstance(b, tuple):
            return False
        if len(a) != len(b):
            return False
        conj = []
        for x, y in zip(a, b):
            e = values_equal(x, y, ctx)
            if e is False:
                return False
            if e is not True:
                conj.append(e)
        return z3.And(*conj) if conj else True
    if isinstance(a, SList) and isinstance(b, SList):
        i = z3.Int(f"li!{ctx.counter}")
        ctx.counter += 1
        return z3.And(a.n == b.n, z3.ForAll([i], z3.Implies(z3.And(i >= 0, i < a.n), a.arr[i] == b.arr[i])))
    if isinstance(a, Obj) and isinstance(b, Obj):
        if a is b:
            return True
        if a.cls is not b.cls:
            return False
        eqm = getattr(a.cls, "find_method", None)
        conj = []
        for k in a.fields:
            if k not in b.fields:
                return False
            if k.startswith("__"):
                continue
            e = values_equal(a.fields[k], b.fields[k], ctx)
            if e is False:
                return False
            if e is not True:
                conj.append(e)
        return z3.And(*conj) if conj else True
    if isinstance(a, Opaque) and isinstance(b, Opaque):
        if a.kind != b.kind:
            return False
        if a.t is not None and b.t is not None:
            return a.t == b.t
        return a is b
    if isinstance(a, SStream) or isinstance(b, SStream):
        return a is b
    if isinstance(a, dict) and isinstance(b, dict):
        if set(a) != set(b):
            return False
        conj = []
        for k in a:
            e = values_equal(a[k], b[k], ctx)
            if e is False:
                return False
            if e is not True:
                conj.append(e)
        return z3.And(*conj) if conj else True
    if isinstance(a, (SInt, SBool, SBV, SBytes, SList, Obj, Opaque)) or isinstance(b, (SInt, SBool, SBV, SBytes, SList, Obj, Opaque)):
        # different kinds (e.g. int vs bytes): Python says unequal
        if (is_intlike(a) or is_byteslike(a) or isinstance(a, (str, tuple, list, dict))) and \
           (is_intlike(b) or is_byteslike(b) or isinstance(b, (str, tuple, list, dict))):
            return False
        raise Unsupported(f"== between {type(a).__name__} and {type(b).__name__}")
    return a == b
