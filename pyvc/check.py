"""bin/check <property> [--tier quick|thorough|deep] [--replay file]

exit 0  every obligation generated from /repo's working tree was discharged
exit 1  VIOLATION (a refuted obligation; counter-model replayed on the real code)
exit 2  UNDECIDED (an obligation neither proved nor refuted / unsupported code)
exit 3  the machinery itself failed (crash, vacuity guard)
"""
from __future__ import annotations

import argparse
import concurrent.futures as cf
import hashlib
import importlib
import json
import os
import subprocess
import sys
import time
import traceback

from . import REPO, VERIF

VENV_PY = "/venv/bin/python"


def _job(args):
    """worker: verify one contract or lemma (own process; z3 state is per process)"""
    modnames, kind, name, tier = args
    try:
        from .contracts import ContractSet
        from .verify import Limits, verify_function, verify_lemma
        from .world import World
        lim = Limits()
        if tier in ("thorough", "deep"):
            lim.solve_ms = 120000
            lim.max_secs = 12000 if tier == "thorough" else 40000
        w = World(REPO, [VERIF])
        cs = ContractSet(w, modnames)
        if kind == "contract":
            c = cs.by_name[name]
            r = verify_function(w, cs, c, lim)
            d = r.as_dict()
            d["contract_module"], d["contract_name"] = c.module, c.name
            d["via"] = c.options.get("via", "smt")
        else:
            for lname, fi, types, opts in cs.lemmas:
                if lname == name:
                    r = verify_lemma(w, cs, lname, fi, types, opts, lim)
                    d = r.as_dict()
                    d["contract_module"], d["contract_name"] = fi.module.name, fi.qualname
                    break
            else:
                raise LookupError(name)
        return d
    except Exception:  # noqa: BLE001
        return dict(target=name, kind=kind, error=traceback.format_exc(), obligations=[], paths=0, unsupported=[],
                    called={}, reach={}, secs=0, solver_secs=0, ast_hash=None, cut_paths=0, notes=[])


def entries_for(prop, cfg, tier="quick"):
    """(modules, [(kind, key, entry)]) tagged with the property"""
    from . import api
    sys.path.insert(0, VERIF)
    sys.path.insert(0, REPO)
    mods = cfg["modules"]
    for m in mods:
        importlib.import_module(m)
    out = []
    for e in api.REGISTRY:
        if e["module"] not in mods or e["kind"] == "shape":
            continue
        tags = e.get("options", {}).get("props")
        if tags is not None and prop not in tags.split():
            continue
        ctier = e.get("options", {}).get("tier")
        if ctier == "thorough" and tier not in ("thorough", "deep"):
            continue
        if ctier == "deep" and tier != "deep":
            continue        # contracts that take an hour or more: bin/check <id> --tier deep
        out.append((e["kind"], f'{e["module"]}:{e["name"]}' if e["kind"] == "contract" else e["target"], e))
    return mods, out


def native_run(argv, timeout=600):
    env = dict(os.environ, PYTHONPATH=f"{VERIF}:{REPO}", PYTHONDONTWRITEBYTECODE="1")
    p = subprocess.run([VENV_PY, "-m", "pyvc.native"] + argv, capture_output=True, text=True, env=env, cwd=VERIF, timeout=timeout)
    return p.returncode, p.stdout, p.stderr


def load_known():
    path = os.path.join(VERIF, "known_findings.json")
    if not os.path.exists(path):
        return dict(findings=[], fixed=[])
    with open(path) as f:
        return json.load(f)


def model_matches(known_input, model):
    """a known finding is keyed by specific input values"""
    if model is None:
        return False
    flat = model.get("inputs", model)
    for k, v in known_input.items():
        mv = flat.get(k)
        if isinstance(mv, dict) and "hex" in mv:
            mv = mv["hex"]
        if mv != v:
            return False
    return True


def main(argv=None):
    ap = argparse.ArgumentParser()
    ap.add_argument("prop")
    ap.add_argument("--tier", default=os.environ.get("VERIF_TIER", "quick"))
    ap.add_argument("--replay")
    ap.add_argument("--only", default="")
    ap.add_argument("--jobs", type=int, default=int(os.environ.get("PYVC_JOBS", "14")))
    a = ap.parse_args(argv)
    sys.path.insert(0, VERIF)
    import checks
    prop = a.prop
    if a.replay:
        rc, out, err = native_run(["replay", a.replay])
        print(out.strip())
        if err.strip():
            print(err.strip(), file=sys.stderr)
        return 1 if rc == 1 else 0
    os.environ["VERIF_TIER"] = "thorough" if a.tier == "deep" else a.tier       # contract modules size their shapes by this
    cfg = checks.PROPS[prop]
    seed = int(os.environ.get("VERIF_SEED", "0"))
    t0 = time.time()
    os.makedirs(os.path.join(VERIF, "work", "replay", prop), exist_ok=True)
    os.environ.setdefault("PYVC_WORK", os.path.join(VERIF, "work"))
    mods, entries = entries_for(prop, cfg, a.tier)
    entries = [e for e in entries if a.only in e[1]]
    auto_bounded = [e for kind, key, e in entries if e.get("options", {}).get("gen") is not None or e.get("options", {}).get("also_bounded")]
    entries = [x for x in entries if x[2].get("options", {}).get("gen") is None]
    jobs = [(mods, kind, key, a.tier) for kind, key, e in entries]
    results = []
    with cf.ProcessPoolExecutor(max_workers=a.jobs) as ex:
        for d in ex.map(_job, jobs):
            results.append(d)
    # extra engines of the property (Lean files, ground obligations, ...)
    extra = []
    for hook in cfg.get("extra", []):
        mod, fn = hook.rsplit(".", 1)
        extra.extend(getattr(importlib.import_module(mod), fn)(prop, a.tier, seed))
    # ---------------------------------------------------------------- verdicts
    known = load_known()
    viol, undecided, crashes, known_hits = [], [], [], []
    n_obl = n_proved = 0
    backends = {}
    solver_secs = 0.0
    functions = []
    samples = []
    trusted_calls = set()
    for d in results:
        if d.get("error"):
            crashes.append((d["target"], d["error"]))
        for u in d["unsupported"]:
            undecided.append((d["target"], "unsupported: " + u))
        reach_ok = (d["reach"].get("pre", True) or d["reach"].get("pre?unknown", False)) if d["kind"] == "function" else True
        any_exit = any(v for k, v in d["reach"].items() if k.startswith("exit."))
        if not d.get("error") and not d["unsupported"] and (not reach_ok or not any_exit) and not d["cut_paths"]:
            crashes.append((d["target"], f"vacuity guard: no reachable exit (reach={d['reach']})"))
        if not d.get("error") and not d["obligations"]:
            crashes.append((d["target"], "vacuity guard: zero obligations generated"))
        names = {}
        for o in d["obligations"]:
            n_obl += 1
            solver_secs += o["secs"]
            if o["status"] == "proved":
                n_proved += 1
                backends[o["backend"]] = backends.get(o["backend"], 0) + 1
                if len(samples) < 6 and o["backend"] not in ("simplify",) and o["name"] not in names:
                    samples.append(dict(obligation=o["name"], backend=o["backend"], goal=o["goal"][:300]))
            elif o["status"] == "refuted":
                viol.append((d, o))
            else:
                undecided.append((d["target"], f"{o['name']}: {o['status']} ({o['backend']})"))
            names[o["name"]] = 1
        functions.append(dict(target=d["target"], kind=d["kind"], ast_sha=d["ast_hash"], paths=d["paths"],
                              obligations=len(d["obligations"]), distinct_obligations=len(names),
                              secs=round(d["secs"], 2), calls={k: v for k, v in d["called"].items() if k.startswith("btclib")}))
        solver_secs += d.get("solver_secs", 0)
    for x in extra:
        n_obl += x.get("obligations", 0)
        n_proved += x.get("discharged", 0)
        backends[x["backend"]] = backends.get(x["backend"], 0) + x.get("discharged", 0)
        solver_secs += x.get("secs", 0)
        for v in x.get("violations", []):
            viol.append((dict(target=x["name"], contract_module=None, contract_name=None, kind="extra"), v))
        for u in x.get("undecided", []):
            undecided.append((x["name"], u))
        for c in x.get("crashes", []):
            crashes.append((x["name"], c))
        functions.extend(x.get("functions", []))
        samples.extend(x.get("samples", [])[:3])
    # ---------------------------------------------------------------- replay refutations
    lines = []
    vcount = 0
    seen_v = set()
    for d, o in viol:
        key = (d["target"], o["name"])
        rp = dict(property=prop, obligation=o["name"], function=d["target"], contract_module=d.get("contract_module"),
                  contract_name=d.get("contract_name"), model=o.get("model"), goal=o.get("goal"), smt2=o.get("smt2"),
                  verifier_output=o.get("output", f"{o.get('backend')}: sat"), note=o.get("note", ""))
        hid = hashlib.sha256(json.dumps([key, o.get("model")], sort_keys=True, default=str).encode()).hexdigest()[:10]
        path = os.path.join(VERIF, "work", "replay", prop, f"{hid}.json")
        confirmed = None
        if d.get("contract_module") and o.get("model") is not None:
            with open(path, "w") as f:
                json.dump(rp, f, indent=1, default=str)
            try:
                rc, out, err = native_run(["replay", path])
                rp["native"] = (out.strip() or err.strip())[-2000:]
                confirmed = rc == 1
            except Exception as e:  # noqa: BLE001
                rp["native"] = f"replay failed: {e}"
        elif o.get("native_confirmed") is not None:
            confirmed = o["native_confirmed"]
        rp["native_confirmed"] = confirmed
        with open(path, "w") as f:
            json.dump(rp, f, indent=1, default=str)
        # known finding?
        kf = None
        for k in known.get("findings", []):
            if k["property"] == prop and k["obligation"] in (o["name"], "*") and k.get("function", d["target"]) == d["target"] \
                    and model_matches(k.get("input", {}), o.get("model")):
                kf = k
        if kf is not None:
            if (kf["what"]) not in known_hits:
                known_hits.append(kf["what"])
            continue
        if key in seen_v:
            continue
        seen_v.add(key)
        vcount += 1
        tail = "" if confirmed else " no-failing-input-found"
        lines.append(f"VIOLATION property={prop} replay={path} obligation={o['name']}{tail}")
    # ---------------------------------------------------------------- bounded stand-ins
    bounded = []
    bjobs = list(cfg.get("bounded", []))
    for e in auto_bounded:
        o = e.get("options", {})
        bjobs.append(dict(module=e["module"], name=e["name"], n_quick=o.get("n_quick", 400), n_thorough=o.get("n_thorough", 6000),
                          rule=o.get("rule", "generator of the contract: boundary-biased random arguments"), target=e["target"]))
    if bjobs:
        def run_b(b):
            n = b["n_thorough"] if a.tier in ("thorough", "deep") else b["n_quick"]
            try:
                rc, out, err = native_run(["bounded", b["module"], b["name"], str(n), str(seed)], timeout=3000 if a.tier == "quick" else 14000)
                r = json.loads(out.strip().splitlines()[-1]) if out.strip() else dict(error=err[-500:])
            except Exception as e:  # noqa: BLE001
                r = dict(error=str(e))
            r.update(module=b["module"], name=b["name"], function=b.get("target", b["name"]) + " [" + b["name"] + "]", bound=f"{n} generated inputs ({b.get('rule', 'boundary-biased random values of the declared types')})",
                     proved=False, label="bounded stand-in: not proved")
            return r
        with cf.ThreadPoolExecutor(max_workers=a.jobs) as ex:
            bounded = list(ex.map(run_b, bjobs))
        for r in bounded:
            if r.get("error"):
                crashes.append((r["function"], "bounded stand-in failed to run: " + r["error"]))
            elif not r.get("evaluations") and not r.get("failures"):
                crashes.append((r["function"], "bounded stand-in evaluated nothing (generator failing or every draw outside the precondition)"))
            for fl in r.get("failures", []):
                hid = hashlib.sha256(json.dumps(fl, sort_keys=True, default=str).encode()).hexdigest()[:10]
                path = os.path.join(VERIF, "work", "replay", prop, f"bounded-{hid}.json")
                with open(path, "w") as f:
                    json.dump(dict(property=prop, function=r["function"], module=r.get("module"), name=r.get("name"), bounded=True, failure=fl,
                                   replay="regenerates draw number failure.draw of the generator seeded with failure.seed and evaluates the contract on the real code"), f, indent=1, default=str)
                kf = None
                for k in known.get("findings", []):
                    if k["property"] == prop and k.get("function") == r["function"] and all(str(fl["args"].get(kk)) == str(vv) for kk, vv in k.get("input", {}).items()):
                        kf = k
                if kf is not None:
                    if kf["what"] not in known_hits:
                        known_hits.append(kf["what"])
                    continue
                vcount += 1
                lines.append(f"VIOLATION property={prop} replay={path} obligation=bounded.{r['function']}:{','.join(fl['violated'])}")
                break
    # ---------------------------------------------------------------- evidence
    wall = time.time() - t0
    level = cfg.get("level", "proof")
    ev = dict(property_id=prop, tier=a.tier, seed=seed, level=level, wall_s=round(wall, 2), violations=vcount,
              coverage=dict(obligations=n_obl, discharged=n_proved,
                            checker_cmd=f"python3-vt bin/check {prop} --tier {a.tier}",
                            trusted_base=cfg.get("trusted_base", []) + checks.COMMON_TRUSTED,
                            backends=backends, solver_seconds=round(solver_secs, 2),
                            functions_under_contract=functions, samples=samples or [dict(note="no non-trivial obligation")],
                            bounded=bounded, not_decided=cfg.get("not_decided", []),
                            undecided=[f"{t}: {m}" for t, m in undecided][:50],
                            known_findings=known_hits,
                            explanation=cfg.get("explanation", "")),
              assumptions=cfg.get("assumptions", []) + checks.COMMON_ASSUMPTIONS)
    if level != "proof":
        ev["coverage"]["evaluations"] = max(n_obl + sum(b.get("evaluations", 0) for b in bounded), 1)
        ev["coverage"]["distinct_nontrivial"] = max(len({f["target"] for f in functions}) + sum(b.get("distinct", 0) for b in bounded), 2)
        ev["coverage"]["rule"] = "obligations generated per path of each function under contract; bounded inputs are boundary-biased random values"
    # a run against a scratch copy (PYVC_REPO: seeded changes) must not overwrite the evidence of /repo;
    # nor does a deep run, whose record goes beside it (the schema knows two tiers)
    evdir = os.path.join(VERIF, "evidence") if os.environ.get("PYVC_REPO", "/repo") == "/repo" and a.tier != "deep" else (os.path.join(VERIF, "work", "scratch_evidence") if a.tier != "deep" else os.path.join(VERIF, "evidence_deep"))
    if a.tier == "deep":
        ev["tier"] = "thorough"
        ev["coverage"]["explanation"] = "(deep run: thorough plus the contracts that take an hour or more) " + ev["coverage"].get("explanation", "")
    os.makedirs(evdir, exist_ok=True)
    with open(os.path.join(evdir, f"{prop}.json"), "w") as f:
        json.dump(ev, f, indent=1, default=str)
    # ---------------------------------------------------------------- report
    print(f"property {prop} tier {a.tier}: {len(functions)} functions/lemmas under contract, "
          f"{n_obl} obligations, {n_proved} discharged {backends}, {len(bounded)} bounded stand-ins, wall {wall:.1f}s")
    for w_ in known_hits:
        print(f"KNOWN-FINDING: property={prop} {w_}")
    for ln in lines:
        print(ln)
    if vcount:
        return 1
    if crashes:
        for t, m in crashes:
            print(f"CHECKER-ERROR property={prop} function={t}: {m.strip().splitlines()[-1] if m.strip() else m}")
            if os.environ.get("PYVC_DEBUG"):
                print(m)
        return 3
    if undecided:
        for t, m in undecided[:40]:
            print(f"UNDECIDED property={prop} obligation={t}: {m}")
        return 2
    return 0


if __name__ == "__main__":
    sys.exit(main())
