"""Lean 4 + Mathlib back end for field obligations (DESIGN.md 3.6).

For a contract marked via="lean" the code side of each path -- the path condition and the
returned coordinates, both generated from the real AST by the symbolic executor -- is
transported from (Z, % p) to the field ZMod p and emitted as a Lean theorem whose conclusion
is the contract's `lean_post` text; the proof is the contract's tactic script.  Transport:

  * every integer input x with 0 <= x < p (a precondition of these contracts) becomes a field
    variable; `e % p` becomes the transport of e (the cast ring hom kills the reduction);
  * an equation between canonical terms (inputs, constants 0/1, `... % p` terms) is equivalent
    to the equation of the casts; other path-condition conjuncts (order comparisons, which no
    field statement expresses) are dropped: dropping a hypothesis is sound.
"""
from __future__ import annotations

import os
import re
import subprocess
import time

import z3

from . import VERIF

HEADER = """import Mathlib.Tactic.FieldSimp
import Mathlib.Tactic.Ring
import Mathlib.Tactic.LinearCombination
import Mathlib.Data.ZMod.Basic
import Mathlib.Algebra.Field.ZMod

set_option maxHeartbeats 400000
"""


class NoTransport(Exception):
    pass


def san(name):
    s = re.sub(r"[^A-Za-z0-9_]", "_", name)
    if s[0].isdigit():
        s = "v" + s
    return s


class Transport:
    def __init__(self, pvar):
        self.pvar = pvar            # z3 Int const standing for the field characteristic
        self.vars = {}              # lean name -> 'F' | 'Prop'

    def term(self, t):
        """z3 Int term -> Lean term over F"""
        if z3.is_int_value(t):
            v = t.as_long()
            return f"({v} : F)" if v >= 0 else f"(-({-v} : F))"
        if z3.is_const(t) and t.decl().kind() == z3.Z3_OP_UNINTERPRETED:
            if t.eq(self.pvar):
                return "(0 : F)"        # p = 0 in the field
            n = san(t.decl().name())
            self.vars[n] = "F"
            return n
        k = t.decl().kind()
        ch = t.children()
        if k == z3.Z3_OP_ADD:
            return "(" + " + ".join(self.term(c) for c in ch) + ")"
        if k == z3.Z3_OP_SUB:
            return "(" + " - ".join(self.term(c) for c in ch) + ")"
        if k == z3.Z3_OP_MUL:
            return "(" + " * ".join(self.term(c) for c in ch) + ")"
        if k == z3.Z3_OP_UMINUS:
            return "(-" + self.term(ch[0]) + ")"
        if k == z3.Z3_OP_MOD and ch[1].eq(self.pvar):
            return self.term(ch[0])
        raise NoTransport(f"term {t.decl().name()}")

    def canonical(self, t):
        if z3.is_int_value(t):
            return 0 <= t.as_long() <= 1
        if z3.is_const(t) and t.decl().kind() == z3.Z3_OP_UNINTERPRETED:
            return not t.eq(self.pvar)
        return t.decl().kind() == z3.Z3_OP_MOD and t.children()[1].eq(self.pvar)

    def prop(self, b):
        """z3 Bool -> Lean Prop (NoTransport if it is not a field statement)"""
        if z3.is_true(b):
            return "True"
        if z3.is_false(b):
            return "False"
        if z3.is_const(b) and b.decl().kind() == z3.Z3_OP_UNINTERPRETED:
            n = san(b.decl().name())
            self.vars[n] = "Prop"
            return n
        k = b.decl().kind()
        ch = b.children()
        if k == z3.Z3_OP_NOT:
            inner = ch[0]
            if inner.decl().kind() == z3.Z3_OP_EQ and not z3.is_bool(inner.children()[0]):
                a, b2 = inner.children()
                if self.canonical(a) and self.canonical(b2):
                    if z3.is_int_value(a):
                        a, b2 = b2, a
                    return "(" + self.term(a) + " ≠ " + self.term(b2) + ")"
            return "(¬ " + self.prop(ch[0]) + ")"
        if k == z3.Z3_OP_AND:
            return "(" + " ∧ ".join(self.prop(c) for c in ch) + ")"
        if k == z3.Z3_OP_OR:
            return "(" + " ∨ ".join(self.prop(c) for c in ch) + ")"
        if k == z3.Z3_OP_IMPLIES:
            return "(" + self.prop(ch[0]) + " → " + self.prop(ch[1]) + ")"
        if k == z3.Z3_OP_EQ or k == z3.Z3_OP_IFF:
            if z3.is_bool(ch[0]):
                return "(" + self.prop(ch[0]) + " ↔ " + self.prop(ch[1]) + ")"
            if self.canonical(ch[0]) and self.canonical(ch[1]):
                a, b2 = ch
                if z3.is_int_value(a):
                    a, b2 = b2, a
                return "(" + self.term(a) + " = " + self.term(b2) + ")"
            raise NoTransport("equation between non-canonical terms")
        if k == z3.Z3_OP_DISTINCT and len(ch) == 2 and self.canonical(ch[0]) and self.canonical(ch[1]):
            return "(" + self.term(ch[0]) + " ≠ " + self.term(ch[1]) + ")"
        raise NoTransport(f"prop {b.decl().name()}")


def emit(name, pvar, hyps, outputs, lean_pre, lean_post, tactic, extra_vars=()):
    """Lean source of one path obligation.  outputs: list of z3 Int terms (the returned
    coordinates) bound to res_0, res_1, ...; returns (source, dropped hypotheses count)"""
    tr = Transport(pvar)
    hs = []
    dropped = 0
    flat = []
    stack = [z3.simplify(h) for h in hyps]
    while stack:
        h = stack.pop(0)
        if z3.is_and(h):
            stack = list(h.children()) + stack
        else:
            flat.append(h)
    for h in flat:
        try:
            hs.append(tr.prop(h))
        except NoTransport:
            dropped += 1
    outs = [tr.term(z3.simplify(o)) if z3.is_expr(o) else f"({int(o)} : F)" for o in outputs]
    for v in extra_vars:
        tr.vars.setdefault(v, "F")
    # names used by the hand-written spec text
    fvars = sorted(n for n, k in tr.vars.items() if k == "F")
    pvars = sorted(n for n, k in tr.vars.items() if k == "Prop")
    # a tactic closing `e ≠ 0` / `a ≠ b` goals that are ring-equivalent to a path hypothesis
    alts = ["assumption"]
    for i, h in enumerate(hs):
        if "≠" in h and "∧" not in h and "∨" not in h:
            alts.append(f"(intro hc; apply hpc{i}; linear_combination hc)")
            alts.append(f"(intro hc; apply hpc{i}; linear_combination -hc)")
    macro = "macro \"ne_from_hyps\" : tactic => `(tactic| first\n  | " + "\n  | ".join(alts) + ")\n"
    eqalts = ["assumption"]
    for i, h in enumerate(hs):
        if " = " in h and "≠" not in h and "∧" not in h and "∨" not in h and "¬" not in h and "↔" not in h:
            eqalts.append(f"(linear_combination hpc{i})")
            eqalts.append(f"(linear_combination -hpc{i})")
    macro += "macro \"eq_from_hyps\" : tactic => `(tactic| first\n  | " + "\n  | ".join(eqalts) + ")\n"
    lines = [HEADER, f"theorem obl (p : ℕ) [Fact p.Prime]"]
    if fvars:
        lines.append("    (" + " ".join(fvars) + " : ZMod p)")
    if pvars:
        lines.append("    (" + " ".join(pvars) + " : Prop)")
    k = 0
    for pre in lean_pre:
        lines.append(f"    (hpre{k} : {pre})")
        k += 1
    for i, h in enumerate(hs):
        lines.append(f"    (hpc{i} : {h})")
    lines.append("    :")
    for i, o in enumerate(outs):
        lines.append(f"    let res_{i} : ZMod p := {o}")
    lines.append(f"    {lean_post} := by")
    for ln in tactic.strip("\n").splitlines():
        lines.append("  " + ln)
    src = "\n".join(lines).replace(" : F)", " : ZMod p)") + "\n"
    # the macros mention hypothesis names: they must be hygienic-free -> inline them as text
    src = src.replace("ne_from_hyps", "(first | " + " | ".join(alts) + ")").replace("eq_from_hyps", "(first | " + " | ".join(eqalts) + ")")
    return src, dropped


def run_lean(src, tag, timeout=300):
    d = os.path.join(VERIF, "work", "lean")
    os.makedirs(d, exist_ok=True)
    path = os.path.join(d, san(tag) + ".lean")
    with open(path, "w") as f:
        f.write(src)
    t0 = time.time()
    try:
        p = subprocess.run(["lean", path], capture_output=True, text=True, timeout=timeout, cwd=d)
        out = (p.stdout + p.stderr).strip()
        ok = p.returncode == 0 and "error" not in out and "sorry" not in out
    except subprocess.TimeoutExpired:
        ok, out = False, "lean: timeout"
    return ok, out[-3000:], time.time() - t0, path
