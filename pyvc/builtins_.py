"""Builtin functions, operators and methods over the value domain (part 1:
operators, items, attributes, iteration)."""
from __future__ import annotations

import ast
import io
import types

import z3

from .ctx import PathEnd
from .ops import (PyRaise, bv_binop, bytes_eq, int_cmp, is_byteslike, is_intlike, raise_py, truth,
                  values_equal, wrap_bool, wrap_int, zi)
from .values import (CB, IE, SL, ExcVal, Obj, Opaque, SBool, SBV, SBytes, SInt, SList, SStream,
                     Unsupported, as_sbytes, bytes_concat, norm_bytes, reify, zint)
from .world import ClassInfo, FuncInfo


class SymSet:
    """small set with symbolic members (only membership tests)"""

    def __init__(self, items):
        self.items = list(items)


OPS = {ast.Add: "+", ast.Sub: "-", ast.Mult: "*", ast.FloorDiv: "//", ast.Mod: "%", ast.Pow: "**",
       ast.LShift: "<<", ast.RShift: ">>", ast.BitAnd: "&", ast.BitOr: "|", ast.BitXor: "^", ast.Div: "/"}


def _native(op, a, b):
    import operator
    f = {"+": operator.add, "-": operator.sub, "*": operator.mul, "//": operator.floordiv,
         "%": operator.mod, "**": operator.pow, "<<": operator.lshift, ">>": operator.rshift,
         "&": operator.and_, "|": operator.or_, "^": operator.xor, "/": operator.truediv}[op]
    try:
        return f(a, b)
    except Exception as e:  # noqa: BLE001
        raise PyRaise(ExcVal(type(e), e.args))


def _sym(v):
    return isinstance(v, (SInt, SBool, SBV, SBytes, SList))


def pow2(I, k):
    """2**k for a z3 Int term k >= 0"""
    ctx = I.ctx
    if z3.is_int_value(k):
        return z3.IntVal(2 ** k.as_long())
    f = ctx.uf("pow2", z3.IntSort(), z3.IntSort())
    t = f(k)
    key = ("pow2", k.get_id())
    if key not in ctx.divmod_cache:
        ctx.divmod_cache[key] = (k,)
        ctx.fact(t >= 1)
        ctx.fact(z3.Implies(k == 0, t == 1))
        ctx.fact(z3.Implies(k >= 1, t == 2 * f(k - 1)))
        ctx.fact(z3.Implies(k >= 1, f(k - 1) >= 1))
        # relate to other pow2 terms seen on this path
        others = ctx.__dict__.setdefault("pow2_terms", [])
        for o in others:
            ctx.fact(z3.Implies(o <= k, f(o) <= t))
            ctx.fact(z3.Implies(k <= o, t <= f(o)))
            ctx.fact(z3.Implies(z3.And(o >= 0, k >= 0), f(o + k) == f(o) * t))
        others.append(k)
    return t


def binop(I, op, a, b):
    o = OPS.get(type(op)) if not isinstance(op, str) else op
    if o is None:
        raise Unsupported(f"operator {type(op).__name__}")
    ctx = I.ctx
    if isinstance(a, Opaque) and isinstance(b, Opaque) and a.kind == "datetime" and b.kind == "datetime" and o == "-":
        return Opaque("timedelta", z3.simplify(a.t - b.t))
    if not _sym(a) and not _sym(b):
        if isinstance(a, (Obj, Opaque, SStream)) or isinstance(b, (Obj, Opaque, SStream)):
            if isinstance(a, Opaque) and a.kind == "str" or isinstance(b, Opaque) and b.kind == "str":
                return Opaque("str")
            raise Unsupported(f"operator {o} on {type(a).__name__}, {type(b).__name__}")
        if isinstance(a, list) and o == "+" and isinstance(b, list):
            return a + b
        if isinstance(a, (list, tuple)) and o == "*" and isinstance(b, int):
            return a * b
        if isinstance(a, tuple) and o == "+" and isinstance(b, tuple):
            return a + b
        if o == "%" and isinstance(a, str):
            return Opaque("str")
        return _native(o, a, b)
    # bytes
    if is_byteslike(a) or is_byteslike(b):
        if o == "+" and is_byteslike(a) and is_byteslike(b):
            return bytes_concat(a, b)
        if o == "*" and is_byteslike(a) and isinstance(b, int):
            r = b""
            for _ in range(b):
                r = bytes_concat(r, a)
            return r
        if o == "*" and isinstance(a, bytes) and isinstance(b, SInt):
            if len(a) == 1:
                # b * x: x copies of one byte
                I.safety("bytes_repeat", True, ValueError)
                n = z3.If(b.t > 0, b.t, 0)
                arr = z3.K(z3.IntSort(), z3.IntVal(a[0]))
                return SBytes((SL(arr, z3.IntVal(0), n),))
        raise Unsupported(f"bytes operator {o}")
    if isinstance(a, (list, tuple)) or isinstance(b, (list, tuple)):
        if o == "+" and type(a) is type(b):
            return a + b
        if o == "*" and isinstance(b, int):
            return a * b
        raise Unsupported(f"sequence operator {o} with symbolic operand")
    if isinstance(a, str) or isinstance(b, str) or isinstance(a, Opaque) or isinstance(b, Opaque):
        return Opaque("str")
    if isinstance(a, float) or isinstance(b, float):
        raise Unsupported("float arithmetic on symbolic value")
    # bit-vector mode
    if isinstance(a, SBV) or isinstance(b, SBV):
        if o in ("&", "|", "^", "<<", ">>", "+", "*"):
            if (isinstance(a, (SBV, int)) and isinstance(b, (SBV, int))
                    and (not isinstance(a, int) or a >= 0) and (not isinstance(b, int) or b >= 0)):
                return bv_binop(o, a, b)
        if o == "%" and isinstance(b, int) and b > 0 and b & (b - 1) == 0 and isinstance(a, SBV):
            return bv_binop("&", a, b - 1)
        if o == "//" and isinstance(b, int) and b > 0 and b & (b - 1) == 0 and isinstance(a, SBV):
            return bv_binop(">>", a, b.bit_length() - 1)
        # fall through to integers
    x, y = zi(a), zi(b)
    if o == "+":
        return wrap_int(x + y)
    if o == "-":
        return wrap_int(x - y)
    if o == "*":
        return wrap_int(x * y)
    if o in ("//", "%"):
        I.safety("div", wrap_bool(y != 0), ZeroDivisionError) if not z3.is_int_value(y) else None
        if z3.is_int_value(y) and y.as_long() == 0:
            raise_py(ZeroDivisionError)
        if ctx.native_mod and not z3.is_int_value(y):
            if not ctx.entails(y > 0):
                raise Unsupported("native-mod function with divisor not known positive")
        q, r = ctx.divmod(x, y)
        return wrap_int(q if o == "//" else r)
    if o == "/":
        from .builtins2 import _Ratio
        return _Ratio(a, b)
    if o == "**":
        if isinstance(b, int) and 0 <= b <= 64:
            r = z3.IntVal(1)
            for _ in range(b):
                r = r * x
            return wrap_int(r)
        if isinstance(a, int) and a == 2:
            I.safety("pow_neg", wrap_bool(y >= 0), ValueError)
            return wrap_int(pow2(I, y))
        if isinstance(a, int) and a > 2 and a & (a - 1) == 0:
            return wrap_int(pow2(I, z3.simplify(y * (a.bit_length() - 1))))
        raise Unsupported("** with symbolic exponent")
    if o in ("<<", ">>") and not z3.is_int_value(y):
        v = ctx.value_if_determined(y)
        if v is not None:
            y = z3.IntVal(v)
            if v < 0:
                raise_py(ValueError, "negative shift count")
    if o == "<<":
        if not ctx.entails(y >= 0):
            I.safety("shift_neg", wrap_bool(y >= 0), ValueError)
        return wrap_int(x * pow2(I, y))
    if o == ">>":
        if not ctx.entails(y >= 0):
            I.safety("shift_neg", wrap_bool(y >= 0), ValueError)
        if z3.is_int_value(y):
            return wrap_int(x / z3.IntVal(2 ** y.as_long()))
        q, _ = ctx.divmod(x, pow2(I, y))
        return wrap_int(q)
    if o == "&":
        # x & (2^k - 1)  ==  x mod 2^k for every Python int x
        for u, v in ((x, b), (y, a)):
            if isinstance(v, int) and not isinstance(v, bool) and v >= 0 and (v + 1) & v == 0:
                return wrap_int(u % z3.IntVal(v + 1)) if v else 0
        if isinstance(a, SBool) and isinstance(b, SBool):
            return wrap_bool(z3.And(a.t, b.t))
        return _bitwise_int(I, o, a, b)
    if o == "|":
        for u, v in ((x, b), (y, a)):
            if isinstance(v, int) and v == 1:
                return wrap_int(u + 1 - u % 2)
            if isinstance(v, int) and v == 0:
                return wrap_int(u)
        if isinstance(a, SBool) and isinstance(b, SBool):
            return wrap_bool(z3.Or(a.t, b.t))
        return _bitwise_int(I, o, a, b)
    if o == "^":
        for u, v in ((x, b), (y, a)):
            if isinstance(v, int) and v == 1:
                return wrap_int(u + 1 - 2 * (u % 2))
            if isinstance(v, int) and v == 0:
                return wrap_int(u)
        if isinstance(a, SBool) and isinstance(b, SBool):
            return wrap_bool(z3.Xor(a.t, b.t))
        return _bitwise_int(I, o, a, b)
    raise Unsupported(f"operator {o}")


def _and_const(x, m):
    """x & m for a constant m >= 0 and any integer term x: sum over the runs of one-bits of m
    of ((x div 2^b) mod 2^a) * 2^b  (exact for negative x too: floor semantics)"""
    terms = []
    b = 0
    while m >> b:
        if (m >> b) & 1:
            a = 0
            while (m >> (b + a)) & 1:
                a += 1
            t = x / z3.IntVal(2 ** b) if b else x
            t = t % z3.IntVal(2 ** a)
            terms.append(t * z3.IntVal(2 ** b) if b else t)
            b += a
        else:
            b += 1
    return z3.Sum(terms) if terms else z3.IntVal(0)


def _disjoint_sum(I, a, b):
    """a | b (= a ^ b) as a + b when the path condition shows the operands occupy disjoint bit
    ranges: 0 <= lo < 2^k and hi a multiple of 2^k (hi >= 0)"""
    ctx = I.ctx
    x, y = zi(a), zi(b)
    for lo, hi in ((x, y), (y, x)):
        from .ctx import _budget
        _budget(ctx.solver, ctx.feas_ms)
        ctx.solver.push()
        ctx.solver.add(hi != 0)
        r = ctx.solver.check()
        v = ctx.solver.model().eval(hi, model_completion=True) if r == z3.sat else None
        ctx.solver.pop()
        if r == z3.unsat:
            return wrap_int(lo) if ctx.entails(lo >= 0) else None
        if v is None or not z3.is_int_value(v) or v.as_long() <= 0:
            continue
        vv = v.as_long()
        k = (vv & -vv).bit_length() - 1
        if k == 0:
            continue
        if ctx.entails(z3.And(lo >= 0, lo < 2 ** k, hi >= 0, hi % (2 ** k) == 0), ms=2000):
            return wrap_int(lo + hi)
    return None


def _bitwise_int(I, o, a, b):
    """general & | ^ on integers: needs known bit widths (declared via bounds in pc)"""
    ctx = I.ctx
    if o in ("|", "^") and not isinstance(a, int) and not isinstance(b, int):
        r = _disjoint_sum(I, a, b)
        if r is not None:
            return r
    for u, v in ((a, b), (b, a)):
        if isinstance(v, int) and not isinstance(v, bool) and v >= 0 and not isinstance(u, int):
            x = zi(u)
            am = _and_const(x, v)
            if o == "&":
                return wrap_int(am)
            if o == "|":
                return wrap_int(x + v - am)
            if o == "^":
                return wrap_int(x + v - 2 * am)
    ws = []
    for v in (a, b):
        if isinstance(v, int):
            if v < 0:
                raise Unsupported("bitwise operator with negative constant")
            ws.append(max(v.bit_length(), 1))
            continue
        t = zi(v)
        w = None
        for cand in (8, 16, 32, 64, 128, 256, 264, 512):
            if ctx.entails(z3.And(t >= 0, t < 2 ** cand)):
                w = cand
                break
        if w is None:
            raise Unsupported(f"bitwise {o} on integer of unknown width")
        ws.append(w)
    w = max(ws)
    xa = z3.Int2BV(zi(a), w)
    xb = z3.Int2BV(zi(b), w)
    r = {"&": xa & xb, "|": xa | xb, "^": xa ^ xb}[o]
    return wrap_int(z3.BV2Int(r, False))


CMP = {ast.Eq: "==", ast.NotEq: "!=", ast.Lt: "<", ast.LtE: "<=", ast.Gt: ">", ast.GtE: ">="}


def compare(I, op, a, b):
    ctx = I.ctx
    if isinstance(op, (ast.Is, ast.IsNot)):
        if a is None or b is None:
            r = a is None and b is None
        elif isinstance(a, (bool,)) or isinstance(b, (bool,)):
            if isinstance(a, SBool) or isinstance(b, SBool):
                e = values_equal(a, b, ctx)
                r = e
            else:
                r = a is b
        elif isinstance(a, (SInt, SBool, SBytes)) or isinstance(b, (SInt, SBool, SBytes)):
            if (a is b):
                r = True
            elif isinstance(a, type) or isinstance(b, type) or a is NotImplemented or b is NotImplemented:
                r = False
            else:
                raise Unsupported("`is` on symbolic values")
        else:
            r = a is b
        if isinstance(op, ast.IsNot):
            return (not r) if isinstance(r, bool) else wrap_bool(z3.Not(r))
        return r if isinstance(r, bool) else wrap_bool(r)
    if isinstance(op, (ast.In, ast.NotIn)):
        r = contains(I, b, a)
        if isinstance(op, ast.NotIn):
            return (not r) if isinstance(r, bool) else wrap_bool(z3.Not(r.t if isinstance(r, SBool) else r))
        return r if isinstance(r, (bool, SBool)) else wrap_bool(r)
    o = CMP[type(op)]
    if o in ("==", "!="):
        if isinstance(a, Obj) and isinstance(a.cls, ClassInfo):
            eq = a.cls.find_method(I.world, "__eq__")
            if eq is not None:
                r = I.call_func(eq, [a, b], {})
                if r is NotImplemented:
                    r = False
                t = truth(r)
                if o == "!=":
                    return (not t) if isinstance(t, bool) else wrap_bool(z3.Not(t))
                return t if isinstance(t, bool) else wrap_bool(t)
        e = values_equal(a, b, ctx)
        if o == "!=":
            return (not e) if isinstance(e, bool) else wrap_bool(z3.Not(e))
        return e if isinstance(e, bool) else wrap_bool(e)
    if is_intlike(a) and is_intlike(b):
        if not _sym(a) and not _sym(b):
            return _native_cmp(o, a, b)
        return int_cmp(o, a, b)
    if isinstance(a, (tuple, list)) and isinstance(b, (tuple, list)) and any(_sym(x) for x in list(a) + list(b)):
        return _lex_cmp(I, o, list(a), list(b))
    if is_byteslike(a) and is_byteslike(b) and (_sym(a) or _sym(b)):
        return _bytes_lex(I, o, a, b)
    if _sym(a) or _sym(b):
        raise Unsupported(f"comparison {o} on {type(a).__name__}, {type(b).__name__}")
    return _native_cmp(o, a, b)


def _native_cmp(o, a, b):
    import operator
    f = {"<": operator.lt, "<=": operator.le, ">": operator.gt, ">=": operator.ge}[o]
    try:
        return f(a, b)
    except Exception as e:  # noqa: BLE001
        raise PyRaise(ExcVal(type(e), e.args))


def _lex_cmp(I, o, a, b):
    """lexicographic comparison of equal-kind sequences"""
    n = min(len(a), len(b))
    strict = o in ("<", ">")
    lt = "<" if o in ("<", "<=") else ">"
    # result = exists k: prefix equal and a[k] lt b[k]  or  all equal and length rule
    terms = []
    prefix = []
    for k in range(n):
        x = compare(I, {"<": ast.Lt(), ">": ast.Gt()}[lt], a[k], b[k])
        e = values_equal(a[k], b[k], I.ctx)
        xt = z3.BoolVal(x) if isinstance(x, bool) else x.t
        et = z3.BoolVal(e) if isinstance(e, bool) else e
        terms.append(z3.And(*(prefix + [xt])))
        prefix.append(et)
    if len(a) == len(b):
        tail = not strict
    elif len(a) < len(b):
        tail = lt == "<"
    else:
        tail = lt == ">"
    terms.append(z3.And(*(prefix + [z3.BoolVal(tail)])))
    return wrap_bool(z3.Or(*terms))


def _bytes_lex(I, o, a, b):
    a, b = as_sbytes(a), as_sbytes(b)
    la, lb = a.length(), b.length()
    if isinstance(la, int) and isinstance(lb, int) and max(la, lb) <= 64:
        facts = []
        xs = [wrap_int(a.at(k, facts)) for k in range(la)]
        ys = [wrap_int(b.at(k, facts)) for k in range(lb)]
        for f in facts:
            I.ctx.fact(f)
        return _lex_cmp(I, o, xs, ys)
    raise Unsupported("ordering of symbolic-length byte strings")


def contains(I, container, x):
    ctx = I.ctx
    if isinstance(container, SymSet):
        container = container.items
    if isinstance(container, (tuple, list, set, frozenset)):
        if not _sym(x) and not any(_sym(y) for y in container) and not isinstance(x, (Obj, Opaque)):
            try:
                return x in container
            except TypeError:
                pass
        disj = []
        for y in container:
            e = values_equal(x, y, ctx)
            if e is True:
                return True
            if e is not False:
                disj.append(e)
        return wrap_bool(z3.Or(*disj)) if disj else False
    if isinstance(container, range):
        if isinstance(x, int):
            return x in container
        t = zi(x)
        if container.step == 1:
            return wrap_bool(z3.And(t >= container.start, t < container.stop))
        return wrap_bool(z3.Or(*[t == v for v in container])) if len(container) <= 64 else _unsup("range membership")
    if isinstance(container, types.MappingProxyType):
        container = dict(container)
    if isinstance(container, dict):
        if _sym(x):
            disj = []
            for k in container:
                e = values_equal(x, k, ctx)
                if e is True:
                    return True
                if e is not False:
                    disj.append(e)
            return wrap_bool(z3.Or(*disj)) if disj else False
        try:
            return x in container
        except TypeError as e:
            raise PyRaise(ExcVal(TypeError, e.args))
    if isinstance(container, (bytes, SBytes)) :
        if isinstance(container, bytes) and isinstance(x, (bytes, int)) and not isinstance(x, bool):
            return x in container
        if is_intlike(x):
            sb = as_sbytes(container)
            n = sb.length()
            if isinstance(n, int) and n <= 64:
                facts = []
                r = z3.Or(*[sb.at(k, facts) == zi(x) for k in range(n)]) if n else False
                for f in facts:
                    ctx.fact(f)
                return wrap_bool(r) if n else False
        raise Unsupported("`in` on symbolic bytes")
    if isinstance(container, str) and isinstance(x, str):
        return x in container
    if isinstance(container, SList):
        i = ctx.fresh("mi")
        return wrap_bool(z3.Exists([i], z3.And(i >= 0, i < container.n, container.arr[i] == zi(x))))
    if isinstance(container, Obj):
        m = container.cls.find_method(I.world, "__contains__")
        if m is not None:
            return I.call_func(m, [container, x], {})
    if not _sym(x) and not isinstance(container, (SBytes, SList, Obj, Opaque, SStream)) and not isinstance(x, (Obj, Opaque, SStream)):
        try:
            return x in container
        except TypeError as e:
            raise PyRaise(ExcVal(TypeError, e.args))
    raise Unsupported(f"`in` on {type(container).__name__}")


def _unsup(msg):
    raise Unsupported(msg)


# ------------------------------------------------------------------ items
def _norm_index(I, idx, n, what):
    """index (int / SInt) into a sequence of length n (int / z3) -> z3 Int / int offset,
    with the IndexError safety obligation"""
    if isinstance(idx, bool):
        idx = int(idx)
    if isinstance(idx, int) and isinstance(n, int):
        if not -n <= idx < n:
            I.safety(what, False, IndexError)
            raise_py(IndexError, "index out of range")
        return idx % n if n else 0
    t = zi(idx)
    nz = zint(n)
    I.safety(what, wrap_bool(z3.And(t >= -nz, t < nz)), IndexError)
    if isinstance(idx, int):
        return z3.simplify(t if idx >= 0 else t + nz)
    if I.ctx.entails(t >= 0):
        return t
    return z3.If(t < 0, t + nz, t)


def _slice_bounds(I, s, n):
    """clamped (lo, hi) for step-1 slice of a sequence of length n"""
    def clamp(v, default):
        if v is None:
            return default
        if isinstance(v, bool):
            v = int(v)
        if isinstance(v, int) and isinstance(n, int):
            if v < 0:
                v = max(n + v, 0)
            return min(v, n)
        t = zi(v)
        nz = zint(n)
        if isinstance(v, int):
            if v >= 0 and I.ctx.entails(nz >= v):
                return v
            t = t if v >= 0 else z3.If(t + nz < 0, 0, t + nz)
            if v >= 0:
                return z3.simplify(z3.If(t > nz, nz, t))
            return z3.simplify(t)
        if I.ctx.entails(t >= 0):
            if I.ctx.entails(t <= nz):
                return t
            return z3.If(t > nz, nz, t)
        t2 = z3.If(t < 0, z3.If(t + nz < 0, 0, t + nz), t)
        return z3.If(t2 > nz, nz, t2)
    lo = clamp(s.start, 0)
    hi = clamp(s.stop, n)
    return lo, hi


def get_item(I, base, snode, fr):
    ctx = I.ctx
    if isinstance(snode, ast.Slice):
        s = I.e_Slice(snode, fr)
        return slice_value(I, base, s)
    idx = I.eval(snode, fr)
    return index_value(I, base, idx)


def slice_value(I, base, s):
    ctx = I.ctx
    step = s.step
    if isinstance(base, (list, tuple, str, range)) or isinstance(base, (bytes, bytearray)) and not any(_sym(x) for x in (s.start, s.stop, s.step)):
        if any(_sym(x) for x in (s.start, s.stop, s.step)):
            raise Unsupported("symbolic slice bound on a concrete-length sequence")
        return base[s]
    if is_byteslike(base):
        sb = as_sbytes(base)
        n = sb.length()
        if step is not None and step != 1:
            if step == -1 and s.start is None and s.stop is None:
                return reverse_bytes(I, sb)
            raise Unsupported("slice step")
        lo, hi = _slice_bounds(I, s, n)
        return sub_bytes(I, sb, lo, hi)
    if isinstance(base, SList):
        if step is not None and step != 1:
            raise Unsupported("slice step on symbolic list")
        lo, hi = _slice_bounds(I, s, base.n)
        lo, hi = zint(lo), zint(hi)
        ln = z3.If(hi > lo, hi - lo, 0)
        i = z3.Int("si!")
        return SList(z3.Lambda([i], base.arr[i + lo]), z3.simplify(ln), base.kind)
    raise Unsupported(f"slice of {type(base).__name__}")


def reverse_bytes(I, sb):
    segs = []
    for s in reversed(sb.segs):
        if isinstance(s, CB):
            segs.append(CB(s.data[::-1]))
        elif isinstance(s, IE):
            segs.append(IE(s.x, s.w, not s.little))
        else:
            ln = s.length()
            if isinstance(ln, int) and ln <= 64:
                facts = []
                for k in reversed(range(ln)):
                    t = z3.Select(s.arr, z3.simplify(s.lo + k))
                    I.ctx.fact(z3.And(t >= 0, t < 256))
                    segs.append(IE(t, 1, True))
            else:
                i = z3.Int("rv!")
                arr = z3.Lambda([i], s.arr[s.hi - 1 - i])
                segs.append(SL(arr, z3.IntVal(0), zint(ln)))
    return norm_bytes(SBytes(segs))


def sub_bytes(I, sb, lo, hi):
    """sb[lo:hi] with clamped bounds 0 <= lo, hi <= n (ints or z3 terms)"""
    ctx = I.ctx
    n = sb.length()
    if z3.is_expr(lo):
        lo = z3.simplify(lo)
        if z3.is_int_value(lo):
            lo = lo.as_long()
    if z3.is_expr(hi):
        hi = z3.simplify(hi)
        if z3.is_int_value(hi):
            hi = hi.as_long()
    if isinstance(lo, int) and isinstance(hi, int):
        if hi <= lo:
            return b""
        # split along segments if boundaries are concrete up to hi
        out = []
        off = 0
        ok = True
        for s in sb.segs:
            ln = s.length()
            if off >= hi:
                break
            if not isinstance(ln, int):
                # symbolic-length segment: only if it is the last needed and slice is inside it
                if isinstance(s, SL):
                    a = max(lo - off, 0)
                    # need hi - off <= ln : clamped bounds guarantee hi <= n, but other segments may follow
                    if s is sb.segs[-1]:
                        out.append(SL(s.arr, s.lo + a, s.lo + (hi - off)))
                        off = hi
                        break
                ok = False
                break
            a, b = max(lo - off, 0), min(hi - off, ln)
            if a < b:
                out.append(_sub_seg(I, s, a, b))
            off += ln
        if ok:
            return norm_bytes(SBytes(out))
    lo_t, hi_t = zint(lo), zint(hi)
    seg = _segment_slice(I, sb, lo_t, hi_t)
    if seg is not None:
        return seg
    hi_t = z3.If(hi_t < lo_t, lo_t, hi_t)
    if len(sb.segs) == 1 and isinstance(sb.segs[0], SL):
        s = sb.segs[0]
        return norm_bytes(SBytes((SL(s.arr, s.lo + lo_t, s.lo + hi_t),)))
    # concrete-length prefix segments followed by one symbolic tail, slice starting at concrete lo
    if isinstance(lo, int):
        off = 0
        for k, s in enumerate(sb.segs):
            ln = s.length()
            if not isinstance(ln, int):
                break
            if off + ln > lo:
                break
            off += ln
        else:
            k = len(sb.segs)
        rest = sb.segs[k:]
        if len(rest) == 1 and isinstance(rest[0], SL) and lo >= off:
            s = rest[0]
            return norm_bytes(SBytes((SL(s.arr, s.lo + (lo - off), s.lo + (hi_t - off)),)))
    arr, _ = reify(sb)
    return norm_bytes(SBytes((SL(arr, lo_t, hi_t),)))


def _segment_slice(I, sb, lo, hi):
    """sb[lo:hi] when both bounds fall on (or at a concrete distance inside) segment
    boundaries whose offsets are syntactically comparable; None otherwise"""
    offs = [z3.IntVal(0)]
    for s in sb.segs:
        offs.append(z3.simplify(offs[-1] + zint(s.length())))

    def locate(t, is_hi):
        best = None
        for i, s in enumerate(sb.segs):
            d = z3.simplify(t - offs[i])
            if not z3.is_int_value(d):
                continue
            d = d.as_long()
            ln = s.length()
            if d < 0:
                continue
            if isinstance(ln, int):
                if d < ln or (is_hi and d == ln):
                    best = (i, d)
            elif d == 0:
                best = (i, 0)
        if best is None:
            d = z3.simplify(t - offs[-1])
            if z3.is_int_value(d) and d.as_long() == 0:
                best = (len(sb.segs), 0)
        return best
    a = locate(lo, False)
    b = locate(hi, True)
    if a is None:
        d = z3.simplify(lo - offs[-1])
        if z3.is_int_value(d) and d.as_long() == 0:
            a = (len(sb.segs), 0)
    if a is None or b is None:
        return None
    (i, da), (j, db) = a, b
    if (j, db) < (i, da):
        return b""
    out = []
    for k in range(i, min(j + 1, len(sb.segs))):
        s = sb.segs[k]
        ln = s.length()
        start = da if k == i else 0
        if k == j:
            end = db
            if end == 0:
                break
        else:
            end = ln
        if isinstance(ln, int):
            if start < end:
                out.append(_sub_seg(I, s, start, end))
        else:
            # symbolic-length segment: only whole (start == 0 and k < j)
            if start != 0 or k == j:
                return None
            out.append(s)
    return norm_bytes(SBytes(out))


def _sub_seg(I, s, a, b):
    if isinstance(s, CB):
        return CB(s.data[a:b])
    if isinstance(s, SL):
        return SL(s.arr, s.lo + a, s.lo + b)
    if isinstance(s, IE):
        if a == 0 and b == s.w:
            return s
        # bytes a..b of the encoding: value (x // 256^k) % 256^(b-a)
        if s.little:
            x = (s.x / z3.IntVal(256 ** a)) % z3.IntVal(256 ** (b - a)) if a else s.x % z3.IntVal(256 ** (b - a))
        else:
            k = s.w - b
            x = (s.x / z3.IntVal(256 ** k)) % z3.IntVal(256 ** (b - a)) if k else s.x % z3.IntVal(256 ** (b - a))
        return IE(z3.simplify(x), b - a, s.little)
    raise Unsupported("segment")


def index_value(I, base, idx):
    ctx = I.ctx
    if isinstance(base, (tuple, list, str, range)) and isinstance(idx, SBV):
        # table lookup by a bit-vector index: if-then-else over the (constant, non-negative) entries
        n = len(base)
        if not all(isinstance(x, int) and not isinstance(x, bool) and x >= 0 for x in base):
            raise Unsupported("bit-vector index into a non-constant table")
        if n < 2 ** idx.w:
            I.safety("index", wrap_bool(z3.ULT(idx.t, z3.BitVecVal(n, idx.w + 1)) if False else z3.ULT(z3.ZeroExt(1, idx.t), z3.BitVecVal(n, idx.w + 1))), IndexError)
        w = max(max(x.bit_length() for x in base), 1)
        r = z3.BitVecVal(base[-1] if n else 0, w)
        for k in reversed(range(min(n, 2 ** idx.w) - 1)):
            r = z3.If(idx.t == z3.BitVecVal(k, idx.w), z3.BitVecVal(base[k], w), r)
        from .ops import sbv_norm
        return sbv_norm(r, w)
    if isinstance(base, (tuple, list, str, range)):
        if isinstance(idx, (SBool,)):
            if len(base) < 2:
                I.safety("index", False, IndexError)
            return _select(I, idx.t, base[1], base[0])
        if isinstance(idx, SInt):
            n = len(base)
            off = _norm_index(I, idx, n, "index")
            vals = list(base)
            # choose by forking unless scalars merge
            r = vals[-1] if vals else None
            merged = None if getattr(I, "no_merge", False) else _try_merge_select(I, off, vals)
            if merged is not None:
                return merged
            for k in range(n - 1):
                if ctx.branch(off == k):
                    return vals[k]
            return vals[n - 1]
        if isinstance(idx, bool):
            idx = int(idx)
        if isinstance(idx, int):
            k = _norm_index(I, idx, len(base), "index")
            return base[k]
        raise_py(TypeError, "indices must be integers")
    if is_byteslike(base):
        sb = as_sbytes(base)
        n = sb.length()
        if isinstance(idx, slice):
            return slice_value(I, base, idx)
        off = _norm_index(I, idx, n, "bytes_index")
        facts = []
        t = sb.at(off, facts)
        for f in facts:
            ctx.fact(f)
        return wrap_int(t)
    if isinstance(base, dict):
        if _sym(idx):
            for k in base:
                e = values_equal(idx, k, ctx)
                if e is True or (e is not False and ctx.branch(e)):
                    return base[k]
            I.safety("dict_key", False, KeyError)
            raise_py(KeyError)
        try:
            if idx not in base:
                I.safety("dict_key", False, KeyError)
                raise_py(KeyError, idx)
        except TypeError as e:
            raise PyRaise(ExcVal(TypeError, e.args))
        return base[idx]
    if isinstance(base, SList):
        off = _norm_index(I, idx, base.n, "list_index")
        return list_elem(I, base, zint(off))
    if isinstance(base, Obj):
        m = base.cls.find_method(I.world, "__getitem__")
        if m is not None:
            return I.call_func(m, [base, idx], {})
    if isinstance(base, (type, ClassInfo)) or base in (list, dict, tuple, set, frozenset):
        return base   # type subscription e.g. list[int]
    raise Unsupported(f"subscript of {type(base).__name__}")


def _select(I, cond, a, b):
    if getattr(I, "no_merge", False) and not I.ctx.speculating:
        return a if I.ctx.branch(cond) else b
    if is_intlike(a) and is_intlike(b) and not isinstance(a, SBV) and not isinstance(b, SBV):
        if isinstance(a, (bool, SBool)) and isinstance(b, (bool, SBool)):
            from .interp import _zb
            return wrap_bool(z3.If(cond, _zb(a), _zb(b)))
        return wrap_int(z3.If(cond, zi(a), zi(b)))
    if isinstance(a, tuple) and isinstance(b, tuple) and len(a) == len(b):
        try:
            return tuple(_select(I, cond, x, y) for x, y in zip(a, b))
        except Unsupported:
            pass
    if I.ctx.speculating:
        raise Unsupported("selection needs a fork")
    return a if I.ctx.branch(cond) else b


def _try_merge_select(I, off, vals):
    """vals[off] as an if-then-else when all values are scalars / same-shape tuples"""
    try:
        I.ctx.speculating += 1
        r = vals[-1]
        for k in reversed(range(len(vals) - 1)):
            r = _select(I, zint(off) == k, vals[k], r)
        return r
    except Unsupported:
        return None
    finally:
        I.ctx.speculating -= 1


def list_elem(I, sl, off):
    t = z3.simplify(z3.Select(sl.arr, off))
    return unpack_elem(I, t, sl.kind)


def unpack_elem(I, t, kind):
    if kind == "int":
        return wrap_int(t)
    if kind == "bool":
        return wrap_bool(t)
    if isinstance(kind, tuple) and kind[0] == "tuple":
        dt = kind[2]
        return tuple(unpack_elem(I, z3.simplify(dt.accessor(0, k)(t)), kk) for k, kk in enumerate(kind[1]))
    if isinstance(kind, tuple) and kind[0] == "opaque":
        return Opaque(kind[1], t)
    raise Unsupported(f"list element kind {kind}")


def pack_elem(I, v, kind):
    if kind == "int":
        return zi(v)
    if kind == "bool":
        t = truth(v)
        return z3.BoolVal(t) if isinstance(t, bool) else t
    if isinstance(kind, tuple) and kind[0] == "tuple":
        dt = kind[2]
        return dt.constructor(0)(*[pack_elem(I, x, kk) for x, kk in zip(v, kind[1])])
    if isinstance(kind, tuple) and kind[0] == "opaque":
        return v.t
    raise Unsupported(f"list element kind {kind}")


def set_item(I, base, snode, v, fr):
    if isinstance(snode, ast.Slice):
        s = I.e_Slice(snode, fr)
        if isinstance(base, list) and not any(_sym(x) for x in (s.start, s.stop, s.step)):
            base[s] = I.B.iterate(I, v)
            return
        if isinstance(base, SBytes) and base.mutable or isinstance(base, bytearray):
            raise Unsupported("slice assignment into bytearray (use a bytearray model)")
        raise Unsupported("slice assignment")
    idx = I.eval(snode, fr)
    if isinstance(base, list):
        if isinstance(idx, SBool):
            if len(base) != 2:
                raise Unsupported("symbolic bool index on list of length != 2")
            a0 = _select(I, idx.t, base[0], v)
            a1 = _select(I, idx.t, v, base[1])
            base[0], base[1] = a0, a1
            return
        if isinstance(idx, SInt):
            n = len(base)
            off = _norm_index(I, idx, n, "index")
            new = []
            try:
                I.ctx.speculating += 1
                try:
                    for k in range(n):
                        new.append(_select(I, zint(off) == k, v, base[k]))
                finally:
                    I.ctx.speculating -= 1
                base[:] = new
                return
            except Unsupported:
                pass
            for k in range(n - 1):
                if I.ctx.branch(zint(off) == k):
                    base[k] = v
                    return
            base[n - 1] = v
            return
        k = _norm_index(I, idx, len(base), "index")
        base[k] = v
        return
    if isinstance(base, dict):
        if _sym(idx):
            raise Unsupported("symbolic dict key")
        base[idx] = v
        return
    if isinstance(base, SList):
        off = _norm_index(I, idx, base.n, "list_index")
        base.arr = z3.Store(base.arr, zint(off), pack_elem(I, v, base.kind))
        return
    if isinstance(base, bytearray):
        if _sym(idx) or _sym(v):
            raise Unsupported("symbolic store into concrete bytearray")
        base[idx] = v
        return
    if isinstance(base, Obj):
        m = base.cls.find_method(I.world, "__setitem__")
        if m is not None:
            I.call_func(m, [base, idx, v], {})
            return
    raise Unsupported(f"item assignment on {type(base).__name__}")


def del_item(I, base, key, snode, fr):
    if isinstance(base, dict) and key is not None and not _sym(key):
        if key not in base:
            I.safety("dict_key", False, KeyError)
            raise_py(KeyError)
        del base[key]
        return
    if isinstance(base, list) and isinstance(snode, ast.Slice):
        s = I.e_Slice(snode, fr)
        if not any(_sym(x) for x in (s.start, s.stop, s.step)):
            del base[s]
            return
    if isinstance(base, list) and isinstance(key, int):
        k = _norm_index(I, key, len(base), "index")
        del base[k]
        return
    raise Unsupported("del item")


# ------------------------------------------------------------------ attributes
def get_attr(I, base, name):
    from .interp import BoundMethod, FuncRef, SuperRef
    if isinstance(base, SuperRef):
        for b in base.cls.bases(I.world):
            m = b.methods.get(name)
            if m is not None:
                if m.kind == "classmethod":
                    return FuncRef(m, base.obj if isinstance(base.obj, ClassInfo) else base.obj.cls, True)
                return FuncRef(m, base.obj, True)
        if name == "__eq__":
            return BoundMethod(base, "__eq__")
        if name in ("__init__", "__post_init__", "__init_subclass__"):
            return BoundMethod(base, "__noop__")
        raise Unsupported(f"super().{name} not found in /repo bases")
    if isinstance(base, Obj):
        if name in base.fields:
            return base.fields[name]
        ci = base.cls
        m = ci.find_method(I.world, name) if isinstance(ci, ClassInfo) else None
        if m is not None:
            if m.kind == "property":
                return I.call_func(m, [base], {})
            if m.kind == "staticmethod":
                return FuncRef(m)
            if m.kind == "classmethod":
                return FuncRef(m, ci, True)
            return FuncRef(m, base, True)
        if isinstance(ci, ClassInfo):
            for c in [ci] + ci.bases(I.world):
                if name in c.class_attrs and c.class_attrs[name] is not None:
                    live = getattr(c.live, name, None)
                    return I.wrap_live(live)
        if name == "__class__":
            return ci
        if name == "__dict__":
            return base.fields
        I.safety("attr", False, AttributeError)
        raise_py(AttributeError, name)
    if isinstance(base, ClassInfo):
        m = base.find_method(I.world, name)
        if m is not None:
            if m.kind == "classmethod":
                return FuncRef(m, base, True)
            return FuncRef(m)
        if name == "__name__":
            return base.name
        live = getattr(base.live, name, None)
        return I.wrap_live(live)
    if isinstance(base, types.ModuleType):
        try:
            return I.wrap_live(getattr(base, name))
        except AttributeError:
            raise_py(AttributeError, name)
    if isinstance(base, SStream):
        if name == "pos":
            return base.pos
        if name == "buf":
            return base.buf
        return BoundMethod(base, name)
    if isinstance(base, ExcVal):
        if name == "args":
            return base.args
        if name == "__cause__":
            return base.cause
        return Opaque("str")
    if isinstance(base, (SInt, SBool, SBV, SBytes, SList, list, dict, bytes, bytearray, str, int, tuple, set, frozenset, SymSet)):
        if isinstance(base, (int, SInt, SBool)) and name in ("real", "numerator"):
            return base
        return BoundMethod(base, name)
    if isinstance(base, type):
        if base is int and name in ("from_bytes",):
            return BoundMethod(int, name)
        if base is bytes and name in ("fromhex",):
            return BoundMethod(bytes, name)
        if base is dict and name == "fromkeys":
            return BoundMethod(dict, name)
        try:
            return I.wrap_live(getattr(base, name))
        except AttributeError:
            raise_py(AttributeError, name)
    if isinstance(base, Opaque):
        return I.B.opaque_attr(I, base, name)
    from .builtins2 import HashObj, HASH_SIZES
    if isinstance(base, HashObj):
        if name == "digest_size":
            return HASH_SIZES[base.alg]
        if name == "name":
            return base.alg
        return BoundMethod(base, name)
    if base is None:
        I.safety("attr_none", False, AttributeError)
        raise_py(AttributeError, name)
    try:
        return I.wrap_live(getattr(base, name))
    except AttributeError:
        raise_py(AttributeError, name)


def wrap_live_instance(I, v):
    """a live value met through a module global or attribute"""
    if isinstance(v, (int, str, bytes, float, type(None), tuple, frozenset, range, complex)):
        return v
    import enum
    if isinstance(v, enum.Enum):
        return v        # enum members are atomic values
    if isinstance(v, types.MappingProxyType):
        return dict(v)
    if isinstance(v, (list, dict, set, bytearray)):
        return v        # module-level tables: read-only by convention (frame checked by C20)
    if isinstance(v, types.ModuleType):
        return v
    ci = I.world.class_of_live(type(v))
    if ci is not None:
        return lift_live_obj(I, v, ci)
    return v


def lift_live_obj(I, v, ci, memo=None):
    """live instance of a /repo class -> Obj (fields lifted recursively)"""
    cache = I.__dict__.setdefault("_lifted", {})
    if id(v) in cache:
        return cache[id(v)]
    o = Obj(ci, {})
    cache[id(v)] = o
    d = getattr(v, "__dict__", None)
    if d is None:
        d = {s: getattr(v, s) for s in getattr(type(v), "__slots__", ()) if hasattr(v, s)}
    for k, x in d.items():
        o.fields[k] = I.wrap_live(x) if not isinstance(x, (int, str, bytes, type(None))) else x
    return o


from .builtins2 import (call_builtin, call_method, fmt_symbolic, iterate, opaque_attr)  # noqa: E402,F401
