"""Path context: path condition, branching by re-execution with a decision
prefix, obligations."""
from __future__ import annotations

import os
import sys
import time

import z3

from .values import SBool, SInt, Unsupported


RL_PER_MS = 7000


def _budget(solver, ms):
    """solver budgets are deterministic resource limits (z3 rlimit), not wall-clock timeouts, so
    that verdicts do not flip when the machine is busy; the wall timeout is only a backstop"""
    solver.set("rlimit", int(ms * RL_PER_MS))
    solver.set("timeout", int(ms * 40))


class PathEnd(Exception):
    """The current path is finished (infeasible, or deliberately cut after a
    loop-preservation check)."""


class NeedFork(Exception):
    """Raised in speculative (no-fork) evaluation when a branch is needed."""


class Obligation:
    __slots__ = ("name", "hyps", "goal", "status", "model", "secs", "backend", "path", "note", "lean")

    def __init__(self, name, hyps, goal, path):
        self.name = name
        self.hyps = hyps
        self.goal = goal
        self.status = "open"
        self.model = None
        self.secs = 0.0
        self.backend = None
        self.path = path
        self.note = ""
        self.lean = None

    def smt2(self):
        s = z3.Solver()
        for h in self.hyps:
            s.add(h)
        s.add(z3.Not(self.goal))
        return s.to_smt2()


class Ctx:
    def __init__(self, prefix=(), quick_ms=400, feas_ms=1500, native_mod=False):
        self.prefix = list(prefix)
        self.taken = []
        self.pending = []
        self.pc = []
        self.solver = z3.Solver()
        self.light = z3.Solver()
        self.quick_ms = quick_ms
        self.feas_ms = feas_ms
        self.obligations = []
        self.counter = 0
        self.speculating = 0
        self.native_mod = native_mod
        self.divmod_cache = {}
        self.uf_cache = {}
        self.int_origin = {}      # term id -> (term, bytes value, little, width)
        self.keep = []            # keep z3 terms alive (ids stable)
        self.inputs = {}          # name -> z3 const (for models/replay)
        self.notes = []           # unsupported / havoc notes
        self.solver_secs = 0.0
        self.reach = {}           # label -> bool (vacuity guards)
        self.dead = False
        self.known = {}
        self.len_syms = []        # [name, [SL objects], resolved]

    # ---- symbols
    def fresh(self, base, sort=None):
        self.counter += 1
        name = f"{base}!{self.counter}"
        if sort is None or sort == "int":
            return z3.Int(name)
        if sort == "bool":
            return z3.Bool(name)
        if sort == "arr":
            return z3.Array(name, z3.IntSort(), z3.IntSort())
        return z3.Const(name, sort)

    # ---- path condition
    def assume(self, b):
        if isinstance(b, bool):
            if not b:
                raise PathEnd()
            return
        b = z3.simplify(b)
        if z3.is_true(b):
            return
        if z3.is_false(b):
            raise PathEnd()
        self.pc.append(b)
        self.solver.add(b)
        if self._is_linear(b):
            self.light.add(b)
        if self.len_syms:
            self._concretize_lengths(b)

    def _occurs(self, t, names):
        seen = set()
        stack = [t]
        while stack:
            x = stack.pop()
            i = x.get_id()
            if i in seen:
                continue
            seen.add(i)
            if z3.is_const(x) and x.decl().kind() == z3.Z3_OP_UNINTERPRETED and x.decl().name() in names:
                return True
            if z3.is_quantifier(x):
                stack.append(x.body())
            else:
                stack.extend(x.children())
        return False

    def _concretize_lengths(self, b):
        """when the path condition pins the length of an input byte string to a constant,
        make the representation concrete-length (sound: pc |= len == c is checked)"""
        names = {n for n, _, done in self.len_syms if not done}
        if not names or not self._occurs(b, names):
            return
        for entry in self.len_syms:
            sym, sls, done = entry
            if done:
                continue
            _budget(self.solver, 300)
            if self.solver.check() != z3.sat:
                return
            v = self.solver.model().eval(z3.Int(sym), model_completion=True)
            if not z3.is_int_value(v):
                continue
            if self.check(z3.Int(sym) != v, 300) == z3.unsat:
                for sl in sls:
                    sl.hi = z3.simplify(sl.lo + v)
                entry[2] = True

    def fact(self, b):
        """a definitional fact (always true): same as assume, never ends a path"""
        b = z3.simplify(b)
        if z3.is_true(b):
            return
        self.pc.append(b)
        self.solver.add(b)
        if self._is_linear(b):
            self.light.add(b)

    def _is_linear(self, t):
        """no product / quotient of two non-constant terms, no quantifier, no uninterpreted
        function: such facts go to the light solver as well (decidable, fast)"""
        seen = set()
        stack = [t]
        n = 0
        while stack:
            x = stack.pop()
            i = x.get_id()
            if i in seen:
                continue
            seen.add(i)
            n += 1
            if n > 4000:
                return False
            if z3.is_quantifier(x):
                return False
            if z3.is_app(x):
                k = x.decl().kind()
                ch = x.children()
                if k == z3.Z3_OP_MUL:
                    if sum(0 if z3.is_int_value(c) else 1 for c in ch) > 1:
                        return False
                elif k in (z3.Z3_OP_IDIV, z3.Z3_OP_MOD, z3.Z3_OP_DIV, z3.Z3_OP_REM):
                    if not z3.is_int_value(ch[1]):
                        return False
                elif k == z3.Z3_OP_UNINTERPRETED and ch:
                    return False
                elif k in (z3.Z3_OP_BV2INT, z3.Z3_OP_INT2BV) or z3.is_bv(x):
                    return False
                stack.extend(ch)
        return True

    def check(self, extra=None, ms=None):
        t0 = time.time()
        _budget(self.solver, ms or self.feas_ms)
        if extra is not None:
            self.solver.push()
            self.solver.add(extra)
        try:
            r = self.solver.check()
        finally:
            if extra is not None:
                self.solver.pop()
        dt = time.time() - t0
        self.solver_secs += dt
        if dt > 1.0 and os.environ.get("PYVC_DEBUG"):
            print(f"[slow check {dt:.1f}s -> {r}] extra={str(extra)[:300]}\n   pc={[str(x)[:160] for x in self.pc[-6:]]}", file=sys.stderr)
        return r

    def feasible(self, b):
        return self.check(b) != z3.unsat

    def entails(self, b, ms=None):
        """True only if pc |= b is established quickly"""
        if isinstance(b, bool):
            return b
        b = z3.simplify(b)
        if z3.is_true(b):
            return True
        if z3.is_false(b):
            return False
        _budget(self.light, ms or self.quick_ms)
        self.light.push()
        self.light.add(z3.Not(b))
        r = self.light.check()
        self.light.pop()
        if r == z3.unsat:
            return True
        return self.check(z3.Not(b), ms or self.quick_ms) == z3.unsat

    def branch(self, c):
        """Decide a condition on this path; schedules the other side."""
        if isinstance(c, bool):
            return c
        c = z3.simplify(c)
        if z3.is_true(c):
            return True
        if z3.is_false(c):
            return False
        k = self.known.get(c.get_id())
        if k is not None:
            return k
        if self.speculating:
            raise NeedFork()
        i = len(self.taken)
        if i < len(self.prefix):
            d = self.prefix[i]
        else:
            can_t = self.feasible(c)
            can_f = self.feasible(z3.Not(c))
            if can_t and can_f:
                d = True
                self.pending.append(self.taken + [False])
            elif can_t:
                d = True
            elif can_f:
                d = False
            else:
                raise PathEnd()
        self.taken.append(d)
        self.keep.append(c)
        self.known[c.get_id()] = d
        nc = z3.simplify(z3.Not(c))
        self.keep.append(nc)
        self.known[nc.get_id()] = not d
        self.assume(c if d else z3.Not(c))
        return d

    def value_if_determined(self, t):
        """the integer the path condition pins t to, or None (two solver calls)"""
        t = z3.simplify(t)
        if z3.is_int_value(t):
            return t.as_long()
        # light solver first (linear facts only: a sound under-approximation of the hypotheses)
        _budget(self.light, self.feas_ms)
        if self.light.check() == z3.sat:
            v = self.light.model().eval(t, model_completion=True)
            if z3.is_int_value(v):
                self.light.push()
                self.light.add(t != v)
                r = self.light.check()
                self.light.pop()
                if r == z3.unsat:
                    return v.as_long()
        _budget(self.solver, self.feas_ms)
        if self.solver.check() != z3.sat:
            return None
        v = self.solver.model().eval(t, model_completion=True)
        if not z3.is_int_value(v):
            return None
        if self.check(t != v, self.feas_ms) == z3.unsat:
            return v.as_long()
        return None

    def split_int(self, t, lo, hi):
        """complete case split of t over lo..hi (the caller has established lo <= t <= hi):
        returns the concrete value on this path"""
        t = z3.simplify(t)
        if z3.is_int_value(t):
            return t.as_long()
        for v in range(lo, hi):
            if self.branch(t == v):
                return v
        self.assume(t == hi)
        return hi

    def choose(self, n, label="choice"):
        """non-deterministic choice among n alternatives (all explored)"""
        for k in range(n - 1):
            b = self.fresh(label, "bool")
            if self.branch(b):
                return k
        return n - 1

    # ---- obligations
    def prove(self, name, goal, note=""):
        if isinstance(goal, bool):
            goal = z3.BoolVal(goal)
        goal = z3.simplify(goal)
        ob = Obligation(name, list(self.pc), goal, tuple(self.taken))
        ob.note = note
        if z3.is_true(goal):
            ob.status = "proved"
            ob.backend = "simplify"
        else:
            t0 = time.time()
            r = self.check(z3.Not(goal), self.quick_ms)
            ob.secs = time.time() - t0
            if r == z3.unsat:
                ob.status = "proved"
                ob.backend = "z3-inline"
        self.obligations.append(ob)
        # continue the path under the goal (standard: an assert is assumed afterwards)
        try:
            self.assume(goal)
        except PathEnd:
            # goal is literally false here: the path cannot continue meaningfully
            raise
        return ob

    def mark_reach(self, label):
        """vacuity guard: the path condition at this point is satisfiable"""
        if self.reach.get(label):
            return
        r = self.check(None, self.feas_ms)
        self.reach[label] = (r == z3.sat) or self.reach.get(label, False)
        if r == z3.unknown:
            self.reach.setdefault(label + "?unknown", True)

    # ---- arithmetic helpers
    def divmod(self, a, b):
        """Python floor division and modulo of z3 Int terms a, b (b != 0 established
        by the caller).  Returns (q, r) terms."""
        key = (a.get_id(), b.get_id())
        if key in self.divmod_cache:
            return self.divmod_cache[key][2:]
        if z3.is_int_value(b) and b.as_long() > 0:
            q, r = a / b, a % b
        elif self.native_mod:
            # caller established b > 0 (Lean-routed functions): z3 div/mod agree with Python there
            q, r = a / b, a % b
        else:
            q = self.fresh("q")
            r = self.fresh("r")
            self.fact(a == q * b + r)
            if z3.is_int_value(b):
                self.fact(z3.And(b < r, r <= 0))
            else:
                self.fact(z3.Implies(b > 0, z3.And(0 <= r, r < b)))
                self.fact(z3.Implies(b < 0, z3.And(b < r, r <= 0)))
        self.divmod_cache[key] = (a, b, q, r)
        return q, r

    def uf(self, name, *sorts):
        key = (name,) + tuple(str(s) for s in sorts)
        if key not in self.uf_cache:
            self.uf_cache[key] = z3.Function(name, *sorts)
        return self.uf_cache[key]

    def note(self, msg):
        if msg not in self.notes:
            self.notes.append(msg)
