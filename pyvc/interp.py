"""Symbolic interpreter for the Python subset (DESIGN.md 3.3/3.4)."""
from __future__ import annotations

import ast
import builtins as _bi
import types

import z3

from .ctx import Ctx, NeedFork, PathEnd
from .ops import (PyRaise, bv_binop, bytes_eq, int_cmp, is_byteslike, is_intlike, raise_py, truth,
                  values_equal, wrap_bool, wrap_int, zi)
from .values import (CB, IE, SL, ExcVal, Obj, Opaque, SBool, SBV, SBytes, SInt, SList, SStream,
                     Unsupported, as_sbytes, bytes_concat, norm_bytes, zint)
from .world import ClassInfo, FuncInfo


class _Return(Exception):
    def __init__(self, v):
        self.v = v


class _Break(Exception):
    pass


class _Continue(Exception):
    pass


class FuncRef:
    def __init__(self, fi, self_val=None, has_self=False):
        self.fi = fi
        self.self_val = self_val
        self.has_self = has_self

    def __repr__(self):
        return f"FuncRef({self.fi.fullname})"


class Closure:
    """nested def / lambda"""

    def __init__(self, node, frame):
        self.node = node
        self.frame = frame


class SuperRef:
    def __init__(self, obj, cls):
        self.obj = obj
        self.cls = cls


class BoundMethod:
    """method of a builtin value (bytes.hex, list.append, stream.read, ...)"""

    def __init__(self, obj, name):
        self.obj = obj
        self.name = name


class Frame:
    def __init__(self, fi, module, env, parent=None):
        self.fi = fi
        self.module = module
        self.env = env
        self.parent = parent
        self.entry = {}
        self.loop_ordinal = 0


PURE_CALLS = {"len", "isinstance", "int", "bool", "abs", "min", "max", "is_integer"}


def _pure_expr(n):
    for x in ast.walk(n):
        if isinstance(x, ast.Call):
            if not (isinstance(x.func, ast.Name) and x.func.id in PURE_CALLS):
                return False
        elif isinstance(x, (ast.NamedExpr, ast.Lambda, ast.ListComp, ast.GeneratorExp, ast.SetComp,
                            ast.DictComp, ast.Await, ast.Yield, ast.YieldFrom, ast.JoinedStr)):
            return False
    return True


class Interp:
    MAX_DEPTH = 60
    MAX_UNROLL = 300

    def __init__(self, world, ctx, contracts=None, verifying=None):
        self.world = world
        self.ctx = ctx
        self.contracts = contracts or {}
        self.verifying = verifying      # fullname of the function whose body is being verified
        self.depth = 0
        self.called = {}                # fullname -> 'inline' | 'contract'
        self.safety_counter = {}
        self.safety_prefix = ""
        self.loop_hooks = {}            # (fullname, ordinal) -> LoopContract
        from . import builtins_ as B
        self.B = B

    # ------------------------------------------------------------ safety
    def safety(self, op, cond, exc_cls):
        """Operation `op` raises builtin exception `exc_cls` unless cond.
        Inside a try that catches it (or in a function whose contract declares it)
        the interpreter forks instead; otherwise it is an obligation."""
        if isinstance(cond, SBool):
            cond = cond.t
        if cond is True:
            return
        if self.catching(exc_cls):
            if not self.ctx.branch(cond if not isinstance(cond, bool) else cond):
                raise_py(exc_cls)
            return
        k = self.safety_counter.get(op, 0)
        self.safety_counter[op] = k + 1
        fn = self.cur_func_name()
        self.ctx.prove(f"safety.{exc_cls.__name__}.{op}@{fn}", cond)

    def cur_func_name(self):
        return self._fn_stack[-1] if getattr(self, "_fn_stack", None) else "?"

    def catching(self, exc_cls):
        for handlers in reversed(getattr(self, "_try_stack", [])):
            for h in handlers:
                if h is None or (isinstance(h, type) and issubclass(exc_cls, h)):
                    return True
        return exc_cls in getattr(self, "allowed_builtin_raises", ())

    # ------------------------------------------------------------ calls
    def call_value(self, fn, args, kwargs=None):
        kwargs = kwargs or {}
        if isinstance(fn, FuncRef):
            a = list(args)
            if fn.has_self:
                a = [fn.self_val] + a
            return self.call_func(fn.fi, a, kwargs)
        if isinstance(fn, Closure):
            return self.call_closure(fn, list(args), kwargs)
        if isinstance(fn, ClassInfo):
            return self.instantiate(fn, list(args), kwargs)
        if isinstance(fn, BoundMethod):
            return self.B.call_method(self, fn.obj, fn.name, list(args), kwargs)
        if isinstance(fn, type) and issubclass(fn, BaseException):
            return ExcVal(fn, tuple(args))
        return self.B.call_builtin(self, fn, list(args), kwargs)

    def bind_args(self, fnode, args, kwargs, frame_for_defaults, fi=None):
        a = fnode.args
        env = {}
        pos = [x.arg for x in a.posonlyargs + a.args]
        args = list(args)
        if len(args) > len(pos) and not a.vararg:
            raise_py(TypeError, "too many positional arguments")
        for name, v in zip(pos, args):
            env[name] = v
        if a.vararg:
            env[a.vararg.arg] = tuple(args[len(pos):])
        kw = dict(kwargs)
        for name in pos[len(args):] + [x.arg for x in a.kwonlyargs]:
            if name in kw:
                env[name] = kw.pop(name)
        if kw:
            if a.kwarg:
                env[a.kwarg.arg] = kw
            else:
                raise_py(TypeError, f"unexpected keyword arguments {list(kw)}")
        # defaults
        defaults = a.defaults
        for name, d in zip(pos[len(pos) - len(defaults):], defaults):
            if name not in env:
                env[name] = self.eval(d, frame_for_defaults)
        for x, d in zip(a.kwonlyargs, a.kw_defaults):
            if x.arg not in env:
                if d is None:
                    raise_py(TypeError, f"missing keyword argument {x.arg}")
                env[x.arg] = self.eval(d, frame_for_defaults)
        for name in pos:
            if name not in env:
                raise_py(TypeError, f"missing argument {name}")
        return env

    def call_func(self, fi, args, kwargs, force_inline=False):
        con = self.contracts.get(fi.fullname)
        mod_frame = Frame(fi, fi.module, {})
        if fi.kind == "classmethod" and (not args or not isinstance(args[0], ClassInfo)):
            args = [fi.cls] + list(args)
        env = self.bind_args(fi.node, args, kwargs, mod_frame, fi)
        if con is not None and not force_inline and not con.inline and con.usable_at_call():
            self.called[fi.fullname] = "contract"
            return con.apply(self, fi, env)
        self.called.setdefault(fi.fullname, "inline")
        return self.run_body(fi, env)

    verifying_body = None

    def run_body(self, fi, env):
        if fi.is_generator:
            return self.run_generator(fi, env)
        if self.depth > self.MAX_DEPTH:
            raise Unsupported("call depth exceeded (recursion without contract?)")
        fr = Frame(fi, fi.module, env)
        fr.entry = dict(env)
        self.depth += 1
        stack = self.__dict__.setdefault("_fn_stack", [])
        stack.append(fi.fullname)
        try:
            self.exec_block(fi.node.body, fr)
            return None
        except _Return as r:
            return r.v
        finally:
            stack.pop()
            self.depth -= 1

    def run_generator(self, fi, env):
        """a generator function is run eagerly; the call yields the list of values"""
        fr = Frame(fi, fi.module, env)
        fr.entry = dict(env)
        fr.yielded = []
        self.depth += 1
        stack = self.__dict__.setdefault("_fn_stack", [])
        stack.append(fi.fullname)
        try:
            self.exec_block(fi.node.body, fr)
        except _Return:
            pass
        finally:
            stack.pop()
            self.depth -= 1
        return fr.yielded

    def call_closure(self, clo, args, kwargs):
        node = clo.node
        env = self.bind_args(node, args, kwargs, clo.frame)
        fr = Frame(clo.frame.fi, clo.frame.module, env, parent=clo.frame)
        if isinstance(node, ast.Lambda):
            return self.eval(node.body, fr)
        if any(isinstance(n, (ast.Yield, ast.YieldFrom)) for n in ast.walk(node)):
            fr.yielded = []
            try:
                self.exec_block(node.body, fr)
            except _Return:
                pass
            return fr.yielded
        try:
            self.exec_block(node.body, fr)
            return None
        except _Return as r:
            return r.v

    def instantiate(self, ci, args, kwargs):
        live = ci.live
        if isinstance(live, type) and issubclass(live, BaseException):
            return ExcVal(live, tuple(args))
        obj = Obj(ci, {})
        init = ci.find_method(self.world, "__init__")
        if init is not None:
            self.call_func(init, [obj] + args, kwargs)
            return obj
        if ci.is_dataclass or any(b.is_dataclass for b in ci.bases(self.world)):
            fields = ci.all_fields(self.world)
            names = [f[0] for f in fields]
            kw_only = self._dc_kw_only(ci)
            vals = {}
            if kw_only and args:
                raise_py(TypeError, "keyword-only dataclass")
            if len(args) > len(names):
                raise_py(TypeError, "too many arguments")
            for n, v in zip(names, args):
                vals[n] = v
            for k, v in kwargs.items():
                if k not in names:
                    raise_py(TypeError, f"unexpected field {k}")
                vals[k] = v
            initvars = {}
            mf = Frame(None, ci.module, {})
            for name, ann, default, kind in fields:
                if name not in vals:
                    if default is None:
                        raise_py(TypeError, f"missing field {name}")
                    vals[name] = self._dc_default(default, mf)
                if kind == "initvar":
                    initvars[name] = vals[name]
                else:
                    obj.fields[name] = vals[name]
            post = ci.find_method(self.world, "__post_init__")
            if post is not None:
                self.call_func(post, [obj] + [initvars[n] for n, _, _, k in fields if k == "initvar"], {})
            return obj
        return obj

    def _dc_kw_only(self, ci):
        for d in ci.node.decorator_list:
            if isinstance(d, ast.Call):
                for kw in d.keywords:
                    if kw.arg == "kw_only" and isinstance(kw.value, ast.Constant) and kw.value.value:
                        return True
        return False

    def _dc_default(self, node, mf):
        if isinstance(node, ast.Call) and isinstance(node.func, ast.Name) and node.func.id == "field":
            for kw in node.keywords:
                if kw.arg == "default":
                    return self.eval(kw.value, mf)
                if kw.arg == "default_factory":
                    f = self.eval(kw.value, mf)
                    return self.call_value(f, [], {})
            raise_py(TypeError, "field without default")
        return self.eval(node, mf)

    # ------------------------------------------------------------ names
    def lookup(self, name, fr):
        f = fr
        while f is not None:
            if name in f.env:
                return f.env[name]
            f = f.parent
        g = fr.module.live.__dict__ if fr.module is not None else {}
        if name in g:
            return self.wrap_live(g[name])
        if hasattr(_bi, name):
            return getattr(_bi, name)
        raise_py(NameError, name)

    def wrap_live(self, v):
        if isinstance(v, (types.FunctionType, types.MethodType)) or hasattr(v, "__wrapped__") and callable(v):
            fi = self.world.func_of_live(v)
            if fi is not None:
                if isinstance(v, types.MethodType) and isinstance(v.__self__, type):
                    ci = self.world.class_of_live(v.__self__)
                    return FuncRef(fi, ci, True)
                return FuncRef(fi)
            return v
        if isinstance(v, type):
            if issubclass(v, BaseException):
                return v
            ci = self.world.class_of_live(v)
            if ci is not None:
                return ci
            return v
        if isinstance(v, bytearray):
            return v
        return self.B.wrap_live_instance(self, v)

    # ------------------------------------------------------------ statements
    def exec_block(self, stmts, fr):
        for st in stmts:
            self.exec_stmt(st, fr)

    def exec_stmt(self, st, fr):
        m = getattr(self, "s_" + type(st).__name__, None)
        if m is None:
            raise Unsupported(f"statement {type(st).__name__} (line {st.lineno})")
        return m(st, fr)

    def s_Expr(self, st, fr):
        if isinstance(st.value, ast.Constant):
            return
        if isinstance(st.value, (ast.Yield, ast.YieldFrom)):
            return self.eval(st.value, fr)
        self.eval(st.value, fr)

    def s_Pass(self, st, fr):
        pass

    def s_Import(self, st, fr):
        import importlib
        for a in st.names:
            m = importlib.import_module(a.name)
            fr.env[a.asname or a.name.split(".")[0]] = m if a.asname else importlib.import_module(a.name.split(".")[0])

    def s_ImportFrom(self, st, fr):
        import importlib
        m = importlib.import_module(st.module)
        for a in st.names:
            fr.env[a.asname or a.name] = self.wrap_live(getattr(m, a.name))

    def s_Return(self, st, fr):
        raise _Return(self.eval(st.value, fr) if st.value is not None else None)

    def s_Break(self, st, fr):
        raise _Break()

    def s_Continue(self, st, fr):
        raise _Continue()

    def s_Global(self, st, fr):
        raise Unsupported("global statement")

    def s_Nonlocal(self, st, fr):
        fr.nonlocals = getattr(fr, "nonlocals", set()) | set(st.names)

    def s_FunctionDef(self, st, fr):
        fr.env[st.name] = Closure(st, fr)

    def s_Assert(self, st, fr):
        v = self.eval(st.test, fr)
        if not self.ctx.branch(truth(v)):
            raise_py(AssertionError)

    def s_Raise(self, st, fr):
        if st.exc is None:
            cur = getattr(fr, "handling", None)
            if cur is None:
                raise_py(RuntimeError, "no active exception")
            raise PyRaise(cur)
        e = self.eval(st.exc, fr)
        if isinstance(e, type) and issubclass(e, BaseException):
            e = ExcVal(e, ())
        if isinstance(e, ClassInfo):
            e = self.instantiate(e, [], {})
        if not isinstance(e, ExcVal):
            raise Unsupported("raise of a non-exception value")
        raise PyRaise(e)

    def s_Delete(self, st, fr):
        for t in st.targets:
            if isinstance(t, ast.Name):
                fr.env.pop(t.id, None)
            elif isinstance(t, ast.Subscript):
                base = self.eval(t.value, fr)
                key = self.eval(t.slice, fr) if not isinstance(t.slice, ast.Slice) else None
                self.B.del_item(self, base, key, t.slice, fr)
            else:
                raise Unsupported("del target")

    def s_Assign(self, st, fr):
        v = self.eval(st.value, fr)
        for t in st.targets:
            self.assign(t, v, fr)

    def s_AnnAssign(self, st, fr):
        if st.value is not None:
            self.assign(st.target, self.eval(st.value, fr), fr)

    def s_AugAssign(self, st, fr):
        cur = self.eval(_as_load(st.target), fr)
        rhs = self.eval(st.value, fr)
        if isinstance(st.op, ast.Add) and isinstance(cur, list) and isinstance(rhs, (list, tuple)):
            cur.extend(rhs)
            return
        self.assign(st.target, self.binop(st.op, cur, rhs), fr)

    def set_name(self, name, v, fr):
        if name in getattr(fr, "nonlocals", ()):
            f = fr.parent
            while f is not None:
                if name in f.env:
                    f.env[name] = v
                    return
                f = f.parent
        fr.env[name] = v

    def assign(self, t, v, fr):
        if isinstance(t, ast.Name):
            self.set_name(t.id, v, fr)
        elif isinstance(t, (ast.Tuple, ast.List)):
            vals = self.B.iterate(self, v)
            stars = [i for i, e in enumerate(t.elts) if isinstance(e, ast.Starred)]
            if stars:
                i = stars[0]
                after = len(t.elts) - i - 1
                if len(vals) < len(t.elts) - 1:
                    raise_py(ValueError, "not enough values to unpack")
                for e, x in zip(t.elts[:i], vals[:i]):
                    self.assign(e, x, fr)
                self.assign(t.elts[i].value, list(vals[i:len(vals) - after]), fr)
                for e, x in zip(t.elts[i + 1:], vals[len(vals) - after:]):
                    self.assign(e, x, fr)
                return
            if len(vals) != len(t.elts):
                self.safety("unpack", False, ValueError)
                raise_py(ValueError, "unpack arity")
            for e, x in zip(t.elts, vals):
                self.assign(e, x, fr)
        elif isinstance(t, ast.Attribute):
            base = self.eval(t.value, fr)
            if isinstance(base, Obj):
                if base.cls is not None and getattr(base.cls, "frozen", False) and fr.fi is not None and fr.fi.node.name not in ("__init__", "__post_init__"):
                    import dataclasses
                    raise_py(dataclasses.FrozenInstanceError, t.attr)
                # property setter?
                base.fields[t.attr] = v
            elif isinstance(base, SStream) and t.attr == "pos":
                base.pos = v
            else:
                raise Unsupported(f"attribute assignment on {type(base).__name__}")
        elif isinstance(t, ast.Subscript):
            base = self.eval(t.value, fr)
            self.B.set_item(self, base, t.slice, v, fr)
        else:
            raise Unsupported(f"assignment target {type(t).__name__}")

    def s_If(self, st, fr):
        c = self.eval_cond(st.test, fr)
        if c:
            self.exec_block(st.body, fr)
        else:
            self.exec_block(st.orelse, fr)

    def eval_cond(self, node, fr):
        v = self.eval(node, fr)
        return self.ctx.branch(truth(v))

    def s_While(self, st, fr):
        hook = self.loop_contract(fr)
        if hook is not None:
            return hook.run_while(self, st, fr)
        n = 0
        while True:
            if not self.eval_cond(st.test, fr):
                self.exec_block(st.orelse, fr)
                return
            try:
                self.exec_block(st.body, fr)
            except _Break:
                return
            except _Continue:
                pass
            n += 1
            if n > self.MAX_UNROLL:
                raise Unsupported(f"while loop at line {st.lineno} needs an invariant (unrolled {n} times)")

    def loop_contract(self, fr):
        if fr.fi is None:
            return None
        k = fr.loop_ordinal
        fr.loop_ordinal += 1
        return self.loop_hooks.get((fr.fi.fullname, k))

    def s_For(self, st, fr):
        hook = self.loop_contract(fr)
        it = self.eval(st.iter, fr)
        if hook is not None:
            return hook.run_for(self, st, fr, it)
        vals = self.B.iterate(self, it, for_loop=True)
        for x in vals:
            self.assign(st.target, x, fr)
            try:
                self.exec_block(st.body, fr)
            except _Break:
                return
            except _Continue:
                continue
        self.exec_block(st.orelse, fr)

    def s_With(self, st, fr):
        # contextlib.suppress(...) only
        if len(st.items) == 1 and isinstance(st.items[0].context_expr, ast.Call):
            call = st.items[0].context_expr
            fn = self.eval(call.func, fr)
            import contextlib
            if fn is contextlib.suppress:
                classes = [self.eval(a, fr) for a in call.args]
                stack = self.__dict__.setdefault("_try_stack", [])
                stack.append(classes)
                try:
                    self.exec_block(st.body, fr)
                except PyRaise as e:
                    if not any(isinstance(c, type) and issubclass(e.exc.cls, c) for c in classes):
                        raise
                finally:
                    stack.pop()
                return
        raise Unsupported("with statement")

    def s_Try(self, st, fr):
        handlers = []
        for h in st.handlers:
            if h.type is None:
                handlers.append(None)
            else:
                t = self.eval(h.type, fr)
                if isinstance(t, tuple):
                    handlers.extend(t)
                else:
                    handlers.append(t)
        stack = self.__dict__.setdefault("_try_stack", [])
        stack.append(handlers)
        try:
            try:
                self.exec_block(st.body, fr)
            finally:
                stack.pop()
        except PyRaise as e:
            for h in st.handlers:
                if h.type is None:
                    match = True
                else:
                    t = self.eval(h.type, fr)
                    ts = t if isinstance(t, tuple) else (t,)
                    match = any(isinstance(c, type) and issubclass(e.exc.cls, c) for c in ts)
                if match:
                    if h.name:
                        fr.env[h.name] = e.exc
                    saved = getattr(fr, "handling", None)
                    fr.handling = e.exc
                    try:
                        self.exec_block(h.body, fr)
                    finally:
                        fr.handling = saved
                        self._run_finally(st, fr)
                    return
            self._run_finally(st, fr)
            raise
        except (_Return, _Break, _Continue):
            self._run_finally(st, fr)
            raise
        else:
            try:
                self.exec_block(st.orelse, fr)
            finally:
                self._run_finally(st, fr)

    def _run_finally(self, st, fr):
        if st.finalbody:
            self.exec_block(st.finalbody, fr)

    # ------------------------------------------------------------ expressions
    def eval(self, node, fr):
        m = getattr(self, "e_" + type(node).__name__, None)
        if m is None:
            raise Unsupported(f"expression {type(node).__name__} (line {getattr(node, 'lineno', '?')})")
        return m(node, fr)

    def e_Constant(self, n, fr):
        return n.value

    def e_Name(self, n, fr):
        return self.lookup(n.id, fr)

    def e_NamedExpr(self, n, fr):
        v = self.eval(n.value, fr)
        self.assign(n.target, v, fr)
        return v

    def e_Tuple(self, n, fr):
        out = []
        for e in n.elts:
            if isinstance(e, ast.Starred):
                out.extend(self.B.iterate(self, self.eval(e.value, fr)))
            else:
                out.append(self.eval(e, fr))
        return tuple(out)

    def e_List(self, n, fr):
        return list(self.e_Tuple(n, fr))

    def e_Set(self, n, fr):
        vals = self.e_Tuple(n, fr)
        if all(not isinstance(v, (SInt, SBool, SBytes, SBV)) for v in vals):
            return set(vals)
        return self.B.SymSet(list(vals))

    def e_Dict(self, n, fr):
        d = {}
        for k, v in zip(n.keys, n.values):
            if k is None:
                d.update(self.eval(v, fr))
            else:
                kk = self.eval(k, fr)
                if isinstance(kk, (SInt, SBool, SBytes)):
                    raise Unsupported("symbolic dict key in literal")
                d[kk] = self.eval(v, fr)
        return d

    def e_JoinedStr(self, n, fr):
        # message text is dropped by extraction (DESIGN 3.1); evaluate only when concrete
        parts = []
        for v in n.values:
            if not isinstance(v, ast.Constant) and any(isinstance(x, ast.Call) for x in ast.walk(v)):
                return Opaque("str")
        try:
            for v in n.values:
                if isinstance(v, ast.Constant):
                    parts.append(str(v.value))
                else:
                    self.ctx.speculating += 1
                    try:
                        x = self.eval(v.value, fr)
                    finally:
                        self.ctx.speculating -= 1
                    if isinstance(x, (SInt, SBool, SBytes, SBV, SList, Obj, Opaque, SStream, ExcVal)) or \
                            isinstance(x, (list, tuple, dict)) and not _all_concrete(x):
                        return self.B.fmt_symbolic(self, n, v, x, parts, fr)
                    spec = ""
                    if v.format_spec is not None:
                        spec = self.eval(v.format_spec, fr)
                        if not isinstance(spec, str):
                            return Opaque("str")
                    if v.conversion == 114:
                        x = repr(x)
                    elif v.conversion == 115:
                        x = str(x)
                    parts.append(format(x, spec))
            return "".join(parts)
        except (NeedFork, Unsupported, PyRaise):
            return Opaque("str")

    def e_FormattedValue(self, n, fr):
        return self.e_JoinedStr(ast.JoinedStr(values=[n]), fr)

    def e_Attribute(self, n, fr):
        base = self.eval(n.value, fr)
        return self.B.get_attr(self, base, n.attr)

    def e_Subscript(self, n, fr):
        base = self.eval(n.value, fr)
        return self.B.get_item(self, base, n.slice, fr)

    def e_Slice(self, n, fr):
        return slice(self.eval(n.lower, fr) if n.lower else None,
                     self.eval(n.upper, fr) if n.upper else None,
                     self.eval(n.step, fr) if n.step else None)

    def e_Starred(self, n, fr):
        raise Unsupported("starred expression")

    def e_Lambda(self, n, fr):
        return Closure(n, fr)

    def e_IfExp(self, n, fr):
        c = self.eval(n.test, fr)
        t = truth(c)
        if isinstance(t, bool):
            return self.eval(n.body if t else n.orelse, fr)
        t = z3.simplify(t)
        if z3.is_true(t):
            return self.eval(n.body, fr)
        if z3.is_false(t):
            return self.eval(n.orelse, fr)
        if _pure_expr(n.body) and _pure_expr(n.orelse) and not self.ctx.speculating and not getattr(self, "no_merge", False):
            # merge when both sides are scalars and need no fork
            try:
                a = self._speculate(n.body, fr, t)
                b = self._speculate(n.orelse, fr, z3.Not(t))
                if a is not _NOSPEC and b is not _NOSPEC:
                    if isinstance(a, (bool, SBool)) and isinstance(b, (bool, SBool)):
                        return wrap_bool(z3.If(t, _zb(a), _zb(b)))
                    if (isinstance(a, int) and isinstance(b, int) and not isinstance(a, bool) and not isinstance(b, bool)
                            and a >= 0 and b >= 0 and getattr(self, "prefer_bv", False)):
                        w = max(a.bit_length(), b.bit_length(), 1)
                        from .ops import sbv_norm
                        return sbv_norm(z3.If(t, z3.BitVecVal(a, w), z3.BitVecVal(b, w)), w)
                    if is_intlike(a) and is_intlike(b) and not isinstance(a, SBV) and not isinstance(b, SBV):
                        return wrap_int(z3.If(t, zi(a), zi(b)))
            except NeedFork:
                pass
        if self.ctx.branch(t):
            return self.eval(n.body, fr)
        return self.eval(n.orelse, fr)

    def _speculate(self, node, fr, assumption):
        """evaluate `node` under `assumption` without forking; obligations raised
        inside carry the assumption in their hypotheses"""
        ctx = self.ctx
        if ctx.check(assumption) == z3.unsat:
            raise NeedFork()
        npc = len(ctx.pc)
        ctx.solver.push()
        ctx.pc.append(assumption)
        ctx.solver.add(assumption)
        ctx.speculating += 1
        ok = False
        try:
            v = self.eval(node, fr)
            ok = True
        except (PyRaise, PathEnd, Unsupported, NeedFork):
            pass
        finally:
            added = ctx.pc[npc + 1:]
            del ctx.pc[npc:]
            ctx.solver.pop()
            ctx.speculating -= 1
        if not ok:
            # cannot merge: let the caller fork
            raise NeedFork()
        # facts added during evaluation are definitional: keep them, but guarded
        for f in added:
            ctx.fact(z3.Implies(assumption, f))
        return v

    def e_BoolOp(self, n, fr):
        is_and = isinstance(n.op, ast.And)
        acc = None      # list of z3 bool terms when merging
        last = None
        for idx, e in enumerate(n.values):
            final = idx == len(n.values) - 1
            if acc is not None:
                # we are merging: evaluate e under the guard so far
                guard = z3.And(*acc) if is_and else z3.Not(z3.Or(*acc))
                ok = False
                if _pure_expr(e):
                    try:
                        v = self._speculate(e, fr, guard)
                        ok = isinstance(v, (bool, SBool))
                    except NeedFork:
                        ok = False
                if ok:
                    t = truth(v)
                    acc.append(z3.BoolVal(t) if isinstance(t, bool) else t)
                    continue
                # fall back: fork on what we have
                cur = z3.And(*acc) if is_and else z3.Or(*acc)
                taken = self.ctx.branch(cur)
                if is_and and not taken:
                    return False
                if (not is_and) and taken:
                    return True
                acc = None
            v = self.eval(e, fr)
            if final:
                return v
            t = truth(v)
            if isinstance(t, bool):
                if is_and and not t:
                    return v
                if (not is_and) and t:
                    return v
                continue
            t = z3.simplify(t)
            if z3.is_true(t) or z3.is_false(t):
                tv = z3.is_true(t)
                if is_and and not tv:
                    return v
                if (not is_and) and tv:
                    return v
                continue
            # symbolic operand: try to merge the rest as a boolean formula, which is
            # sound whenever the result is only used for its truth value and v is a bool
            if isinstance(v, SBool) and all(_pure_expr(x) for x in n.values[idx + 1:]) and not self.ctx.speculating:
                acc = [t]
                continue
            taken = self.ctx.branch(t)
            if is_and and not taken:
                return v
            if (not is_and) and taken:
                return v
        if acc is not None:
            return wrap_bool(z3.And(*acc) if is_and else z3.Or(*acc))
        return last

    def e_UnaryOp(self, n, fr):
        v = self.eval(n.operand, fr)
        if isinstance(n.op, ast.Not):
            t = truth(v)
            return (not t) if isinstance(t, bool) else wrap_bool(z3.Not(t))
        if isinstance(n.op, ast.USub):
            if isinstance(v, (int, float)) and not isinstance(v, bool):
                return -v
            return wrap_int(-zi(v))
        if isinstance(n.op, ast.UAdd):
            return v if isinstance(v, int) else wrap_int(zi(v))
        if isinstance(n.op, ast.Invert):
            if isinstance(v, int):
                return ~v
            return wrap_int(-zi(v) - 1)
        raise Unsupported("unary operator")

    def e_BinOp(self, n, fr):
        a = self.eval(n.left, fr)
        b = self.eval(n.right, fr)
        return self.binop(n.op, a, b)

    def binop(self, op, a, b):
        return self.B.binop(self, op, a, b)

    def e_Compare(self, n, fr):
        left = self.eval(n.left, fr)
        conj = []
        for op, rn in zip(n.ops, n.comparators):
            right = self.eval(rn, fr)
            r = self.B.compare(self, op, left, right)
            if r is False:
                return False
            if r is not True:
                conj.append(r.t if isinstance(r, SBool) else r)
            left = right
        if not conj:
            return True
        return wrap_bool(z3.And(*conj) if len(conj) > 1 else conj[0])

    def e_Call(self, n, fr):
        # method call on a value?
        args = []
        for a in n.args:
            if isinstance(a, ast.Starred):
                args.extend(self.B.iterate(self, self.eval(a.value, fr)))
            else:
                args.append(self.eval(a, fr))
        kwargs = {}
        for kw in n.keywords:
            if kw.arg is None:
                d = self.eval(kw.value, fr)
                kwargs.update(d)
            else:
                kwargs[kw.arg] = self.eval(kw.value, fr)
        if isinstance(n.func, ast.Name) and n.func.id == "super":
            if n.args or fr.fi is None or fr.fi.cls is None:
                raise Unsupported("super() with arguments / outside a method")
            f = fr
            while f.parent is not None:
                f = f.parent
            first = fr.fi.node.args.args[0].arg
            return SuperRef(f.env[first], fr.fi.cls)
        fn = self.eval(n.func, fr)
        return self.call_value(fn, args, kwargs)

    def e_ListComp(self, n, fr):
        out = []
        self._comp(n.generators, 0, fr, lambda f: out.append(self.eval(n.elt, f)))
        return out

    def e_GeneratorExp(self, n, fr):
        return self.e_ListComp(n, fr)

    def e_SetComp(self, n, fr):
        vals = self.e_ListComp(n, fr)
        if _all_concrete(vals):
            return set(vals)
        return self.B.SymSet(vals)

    def e_DictComp(self, n, fr):
        out = {}

        def add(f):
            k = self.eval(n.key, f)
            if isinstance(k, (SInt, SBool, SBytes)):
                raise Unsupported("symbolic dict key")
            out[k] = self.eval(n.value, f)
        self._comp(n.generators, 0, fr, add)
        return out

    def _comp(self, gens, k, fr, emit):
        if k == len(gens):
            emit(fr)
            return
        g = gens[k]
        it = self.eval(g.iter, fr)
        vals = self.B.iterate(self, it, for_loop=True)
        for x in vals:
            f2 = Frame(fr.fi, fr.module, {}, parent=fr)
            self.assign(g.target, x, f2)
            if all(self.ctx.branch(truth(self.eval(c, f2))) for c in g.ifs):
                self._comp(gens, k + 1, f2, emit)

    def e_Yield(self, n, fr):
        f = fr
        while f is not None and not hasattr(f, "yielded"):
            f = f.parent
        if f is None:
            raise Unsupported("yield outside generator")
        f.yielded.append(self.eval(n.value, fr) if n.value else None)
        return None

    def e_YieldFrom(self, n, fr):
        f = fr
        while f is not None and not hasattr(f, "yielded"):
            f = f.parent
        f.yielded.extend(self.B.iterate(self, self.eval(n.value, fr)))
        return None


_NOSPEC = object()


def _zb(v):
    return z3.BoolVal(v) if isinstance(v, bool) else v.t


def _all_concrete(x):
    if isinstance(x, (list, tuple, set, frozenset)):
        return all(_all_concrete(y) for y in x)
    if isinstance(x, dict):
        return all(_all_concrete(k) and _all_concrete(v) for k, v in x.items())
    return not isinstance(x, (SInt, SBool, SBytes, SBV, SList, Obj, Opaque, SStream))


def _as_load(t):
    import copy
    t2 = copy.copy(t)
    t2.ctx = ast.Load()
    return t2
