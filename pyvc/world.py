"""Extraction: read the working tree of /repo with `ast`, index functions and
classes, and pair them with the live module objects (constants, exception
classes) imported from the same files."""
from __future__ import annotations

import ast
import hashlib
import importlib
import os
import sys

from . import REPO


class FuncInfo:
    def __init__(self, module, qualname, node, cls=None):
        self.module = module
        self.qualname = qualname
        self.node = node
        self.cls = cls
        decos = [_deco_name(d) for d in node.decorator_list]
        self.decorators = decos
        self.kind = "function"
        if cls is not None:
            self.kind = "method"
            if "classmethod" in decos:
                self.kind = "classmethod"
            elif "staticmethod" in decos:
                self.kind = "staticmethod"
            elif "property" in decos or any(d.endswith("cached_property") for d in decos):
                self.kind = "property"
        self.is_generator = any(isinstance(n, (ast.Yield, ast.YieldFrom)) for n in _walk_own(node))

    @property
    def fullname(self):
        return f"{self.module.name}.{self.qualname}"

    def ast_hash(self):
        return hashlib.sha256(ast.dump(self.node).encode()).hexdigest()[:16]

    def __repr__(self):
        return f"<func {self.fullname}>"


def _walk_own(fn):
    """walk a function body without descending into nested defs"""
    stack = list(fn.body)
    while stack:
        n = stack.pop()
        yield n
        for c in ast.iter_child_nodes(n):
            if isinstance(c, (ast.FunctionDef, ast.AsyncFunctionDef, ast.Lambda, ast.ClassDef)):
                continue
            stack.append(c)


def _deco_name(d):
    if isinstance(d, ast.Call):
        d = d.func
    if isinstance(d, ast.Attribute):
        return (_deco_name(d.value) + "." + d.attr)
    if isinstance(d, ast.Name):
        return d.id
    return "?"


class ClassInfo:
    def __init__(self, module, name, node):
        self.module = module
        self.name = name
        self.qualname = name
        self.node = node
        self.methods = {}
        self.class_attrs = {}
        self.fields = []  # dataclass fields: (name, annotation-src, default node or None, kind)
        decos = [_deco_name(d) for d in node.decorator_list]
        self.is_dataclass = any(d.split(".")[-1] == "dataclass" for d in decos)
        self.frozen = False
        for d in node.decorator_list:
            if isinstance(d, ast.Call):
                for kw in d.keywords:
                    if kw.arg == "frozen" and isinstance(kw.value, ast.Constant):
                        self.frozen = bool(kw.value.value)
        for st in node.body:
            if isinstance(st, ast.FunctionDef):
                self.methods[st.name] = FuncInfo(module, f"{name}.{st.name}", st, cls=self)
            elif isinstance(st, ast.AnnAssign) and isinstance(st.target, ast.Name):
                ann = ast.unparse(st.annotation)
                if ann.startswith("ClassVar"):
                    self.class_attrs[st.target.id] = st.value
                    continue
                kind = "initvar" if ann.startswith("InitVar") else "field"
                self.fields.append((st.target.id, ann, st.value, kind))
            elif isinstance(st, ast.Assign) and len(st.targets) == 1 and isinstance(st.targets[0], ast.Name):
                self.class_attrs[st.targets[0].id] = st.value

    @property
    def fullname(self):
        return f"{self.module.name}.{self.name}"

    @property
    def live(self):
        return getattr(self.module.live, self.name, None)

    def bases(self, world):
        out = []
        live = self.live
        if live is None:
            return out
        for b in live.__mro__[1:]:
            ci = world.class_of_live(b)
            if ci is not None:
                out.append(ci)
        return out

    def find_method(self, world, name):
        if name in self.methods:
            return self.methods[name]
        for b in self.bases(world):
            if name in b.methods:
                return b.methods[name]
        return None

    def all_fields(self, world):
        """dataclass fields in definition order, bases first"""
        out = []
        seen = {}
        for ci in list(reversed(self.bases(world))) + [self]:
            if not ci.is_dataclass:
                continue
            for f in ci.fields:
                if f[0] in seen:
                    out[seen[f[0]]] = f
                else:
                    seen[f[0]] = len(out)
                    out.append(f)
        return out

    def __repr__(self):
        return f"<class {self.fullname}>"


class ModuleInfo:
    def __init__(self, world, name, path, live):
        self.world = world
        self.name = name
        self.path = path
        self.live = live
        with open(path) as f:
            self.src = f.read()
        self.tree = ast.parse(self.src)
        self.funcs = {}
        self.classes = {}
        for st in self.tree.body:
            if isinstance(st, ast.FunctionDef):
                self.funcs[st.name] = FuncInfo(self, st.name, st)
            elif isinstance(st, ast.ClassDef):
                self.classes[st.name] = ClassInfo(self, st.name, st)

    def lookup(self, qualname):
        parts = qualname.split(".")
        if len(parts) == 1:
            return self.funcs.get(parts[0]) or self.classes.get(parts[0])
        if len(parts) == 2 and parts[0] in self.classes:
            return self.classes[parts[0]].methods.get(parts[1])
        return None


class World:
    """All modules of the verified tree (and of /verif/spec), loaded lazily."""

    def __init__(self, repo=REPO, extra_roots=()):
        self.repo = repo
        self.roots = [repo] + list(extra_roots)
        for r in reversed(self.roots):
            if r not in sys.path:
                sys.path.insert(0, r)
        self.modules = {}

    def module(self, name):
        if name in self.modules:
            return self.modules[name]
        if name == "pyvc" or name.startswith("pyvc."):
            return None
        live = importlib.import_module(name)
        path = getattr(live, "__file__", None)
        if path is None or not path.endswith(".py"):
            return None
        ok = any(os.path.abspath(path).startswith(os.path.abspath(r) + os.sep) for r in self.roots)
        if not ok:
            return None
        mi = ModuleInfo(self, name, path, live)
        self.modules[name] = mi
        return mi

    def find(self, fullname):
        """'btclib.var_int.parse' or 'btclib.curves.curve_group.CurveGroup.add_jac'"""
        parts = fullname.split(".")
        for k in range(len(parts) - 1, 0, -1):
            modname = ".".join(parts[:k])
            try:
                mi = self.module(modname)
            except ImportError:
                continue
            if mi is None:
                continue
            r = mi.lookup(".".join(parts[k:]))
            if r is not None:
                return r
        return None

    def func_of_live(self, fn):
        """live function object -> FuncInfo (or None)"""
        fn = getattr(fn, "__wrapped__", fn)
        fn = getattr(fn, "__func__", fn)
        mod = getattr(fn, "__module__", None)
        qn = getattr(fn, "__qualname__", None)
        if not mod or not qn or "<locals>" in qn:
            return None
        try:
            mi = self.module(mod)
        except ImportError:
            return None
        if mi is None:
            return None
        r = mi.lookup(qn)
        return r if isinstance(r, FuncInfo) else None

    def class_of_live(self, cls):
        mod = getattr(cls, "__module__", None)
        qn = getattr(cls, "__qualname__", None)
        if not mod or not qn or "." in qn:
            return None
        try:
            mi = self.module(mod)
        except ImportError:
            return None
        if mi is None:
            return None
        return mi.classes.get(qn)
