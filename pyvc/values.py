"""Symbolic value domain of pyvc.

Concrete Python values (int, bool, bytes, str, None, tuple, list, dict) stand for
themselves.  Symbolic ones:

  SInt   - mathematical integer (z3 Int)
  SBool  - boolean (z3 Bool)
  SBV    - non-negative integer kept as a bit-vector whose width is a static
           upper bound of its bit length (exact: operations widen, never wrap)
  SBytes - byte string as a tuple of segments (concrete bytes, slice of a byte
           array, fixed-width encoding of an integer)
  SList  - list of symbolic length: (z3 array, length, element kind)
  SStream- BytesIO: mutable (buffer value, position)
  Obj    - instance of a class of /repo: mutable record of fields
  Opaque - value of an uninterpreted sort (hash objects, strings we never look into)
"""
from __future__ import annotations

import z3

IntS = z3.IntSort()
BoolS = z3.BoolSort()
ArrS = z3.ArraySort(IntS, IntS)


class Unsupported(Exception):
    """The generator cannot process a construct: the function is reported
    `unsupported`, never proved, never a violation."""


class SInt:
    __slots__ = ("t",)

    def __init__(self, t):
        self.t = t

    def __repr__(self):
        return f"SInt({self.t})"


class SBool:
    __slots__ = ("t",)

    def __init__(self, t):
        self.t = t

    def __repr__(self):
        return f"SBool({self.t})"


class SBV:
    """Non-negative integer as bit-vector of width w >= its bit length."""
    __slots__ = ("t", "w")

    def __init__(self, t, w):
        assert t.size() == w, (t.size(), w)
        self.t = t
        self.w = w

    def __repr__(self):
        return f"SBV{self.w}({self.t})"

    def ext(self, w):
        if w == self.w:
            return self.t
        assert w > self.w
        return z3.ZeroExt(w - self.w, self.t)


class Opaque:
    __slots__ = ("kind", "t", "info")

    def __init__(self, kind, t=None, info=None):
        self.kind = kind
        self.t = t
        self.info = info

    def __repr__(self):
        return f"Opaque<{self.kind}>({self.t})"


# ---------------------------------------------------------------- bytes ----
class CB:
    __slots__ = ("data",)

    def __init__(self, data):
        self.data = bytes(data)

    def length(self):
        return len(self.data)

    def __repr__(self):
        return f"CB({self.data.hex()})"


class SL:
    """arr[lo:hi], 0 <= lo <= hi (a fact the creator guarantees)."""
    __slots__ = ("arr", "lo", "hi")

    def __init__(self, arr, lo, hi):
        self.arr = arr
        self.lo = z3.simplify(lo) if z3.is_expr(lo) else z3.IntVal(lo)
        self.hi = z3.simplify(hi) if z3.is_expr(hi) else z3.IntVal(hi)

    def length(self):
        d = z3.simplify(self.hi - self.lo)
        return d.as_long() if z3.is_int_value(d) else d

    def __repr__(self):
        return f"SL({self.arr}[{self.lo}:{self.hi}])"


class IE:
    """w-byte unsigned encoding of x, 0 <= x < 256**w (creator guarantees)."""
    __slots__ = ("x", "w", "little")

    def __init__(self, x, w, little):
        self.x = x
        self.w = w
        self.little = little

    def length(self):
        return self.w

    def __repr__(self):
        return f"IE({self.x},{self.w},{'le' if self.little else 'be'})"


def _add(a, b):
    if isinstance(a, int) and isinstance(b, int):
        return a + b
    r = z3.simplify((z3.IntVal(a) if isinstance(a, int) else a) + (z3.IntVal(b) if isinstance(b, int) else b))
    return r.as_long() if z3.is_int_value(r) else r


def zint(v):
    return z3.IntVal(v) if isinstance(v, int) else v


class SBytes:
    __slots__ = ("segs", "mutable")

    def __init__(self, segs, mutable=False):
        out = []
        for s in segs:
            if isinstance(s, CB):
                if not s.data:
                    continue
                if out and isinstance(out[-1], CB):
                    out[-1] = CB(out[-1].data + s.data)
                    continue
            elif isinstance(s, SL):
                ln = s.length()
                if isinstance(ln, int) and ln == 0:
                    continue
                if out and isinstance(out[-1], SL) and out[-1].arr.eq(s.arr) and z3.simplify(out[-1].hi == s.lo).eq(z3.BoolVal(True)):
                    out[-1] = SL(s.arr, out[-1].lo, s.hi)
                    continue
            out.append(s)
        self.segs = tuple(out)
        self.mutable = mutable

    def __repr__(self):
        return "SBytes" + repr(self.segs)

    def length(self):
        n = 0
        for s in self.segs:
            n = _add(n, s.length())
        return n

    def concrete(self):
        """bytes if fully concrete else None"""
        if not self.segs:
            return b""
        if len(self.segs) == 1 and isinstance(self.segs[0], CB):
            return self.segs[0].data
        return None

    def at(self, i, facts=None):
        """z3 Int term: the byte at index i (z3 Int term or int); 0 if out of range.
        `facts`: a list receiving range facts for array selects."""
        i = zint(i)
        off = 0
        res = z3.IntVal(0)
        pieces = []
        for s in self.segs:
            ln = s.length()
            end = _add(off, ln)
            rel = z3.simplify(i - zint(off))
            pieces.append((zint(end), _seg_at(s, rel, facts)))
            off = end
        for end, val in reversed(pieces):
            res = z3.If(i < end, val, res)
        return z3.simplify(z3.If(i < 0, z3.IntVal(0), res))


def _seg_at(s, rel, facts):
    if isinstance(s, CB):
        if z3.is_int_value(rel):
            k = rel.as_long()
            return z3.IntVal(s.data[k]) if 0 <= k < len(s.data) else z3.IntVal(0)
        if len(s.data) > 600:
            raise Unsupported("symbolic index into long concrete bytes")
        r = z3.IntVal(0)
        for k in reversed(range(len(s.data))):
            r = z3.If(rel == k, z3.IntVal(s.data[k]), r)
        return r
    if isinstance(s, SL):
        t = z3.simplify(z3.Select(s.arr, s.lo + rel))
        if facts is not None and not z3.is_int_value(t):
            facts.append(z3.And(t >= 0, t < 256))
        return t
    if isinstance(s, IE):
        def byte(k):
            e = k if s.little else s.w - 1 - k
            if e == s.w - 1:
                # most significant byte: 0 <= x < 256**w makes the reduction mod 256 the identity
                return s.x / z3.IntVal(256 ** e) if e else s.x
            return (s.x / z3.IntVal(256 ** e)) % 256 if e else s.x % 256
        if z3.is_int_value(rel):
            k = rel.as_long()
            return byte(k) if 0 <= k < s.w else z3.IntVal(0)
        r = z3.IntVal(0)
        for k in reversed(range(s.w)):
            r = z3.If(rel == k, byte(k), r)
        return r
    raise Unsupported(f"segment {s!r}")


def as_sbytes(v):
    if isinstance(v, SBytes):
        return v
    if isinstance(v, (bytes, bytearray)):
        return SBytes((CB(bytes(v)),), mutable=isinstance(v, bytearray))
    raise Unsupported(f"not bytes: {type(v).__name__}")


def norm_bytes(sb):
    c = sb.concrete()
    if c is not None and not sb.mutable:
        return c
    return sb


def bytes_concat(a, b):
    if isinstance(a, bytes) and isinstance(b, bytes):
        return a + b
    a = as_sbytes(a)
    b = as_sbytes(b)
    return norm_bytes(SBytes(a.segs + b.segs))


def reify(sb, facts=None):
    """(array term, length term) whose first `length` cells are the bytes, 0 elsewhere."""
    sb = as_sbytes(sb)
    n = zint(sb.length())
    if len(sb.segs) == 1 and isinstance(sb.segs[0], SL) and z3.simplify(sb.segs[0].lo == 0).eq(z3.BoolVal(True)) and False:
        return sb.segs[0].arr, n
    i = z3.Int("ri!")
    body = z3.If(z3.And(i >= 0, i < n), sb.at(i, facts), z3.IntVal(0))
    return z3.Lambda([i], body), n


# ---------------------------------------------------------------- lists ----
class SList:
    """List of symbolic length. arr: z3 Array(Int -> sort); n: z3 Int;
    kind: element kind, one of 'int', 'bool', ('tuple', (kinds...))"""
    __slots__ = ("arr", "n", "kind")

    def __init__(self, arr, n, kind):
        self.arr = arr
        self.n = n
        self.kind = kind

    def __repr__(self):
        return f"SList({self.arr},{self.n},{self.kind})"


class SStream:
    """io.BytesIO model"""
    __slots__ = ("buf", "pos", "name")

    def __init__(self, buf, pos=0, name="stream"):
        self.buf = buf          # bytes or SBytes
        self.pos = pos          # int or SInt
        self.name = name

    def __repr__(self):
        return f"SStream({self.buf!r}@{self.pos!r})"


class Obj:
    """Instance of a class defined in /repo (or a contract shape)."""

    def __init__(self, cls, fields=None):
        self.cls = cls          # ClassInfo
        self.fields = fields if fields is not None else {}

    def __repr__(self):
        return f"Obj<{getattr(self.cls, 'qualname', self.cls)}>({self.fields})"


class ExcVal:
    """An exception instance being raised in interpreted code."""

    def __init__(self, cls, args=(), cause=None):
        self.cls = cls          # live Python exception class
        self.args = args
        self.cause = cause

    def __repr__(self):
        return f"ExcVal({self.cls.__name__})"


def is_symbolic(v):
    return isinstance(v, (SInt, SBool, SBV, SBytes, SList, SStream, Obj, Opaque))
