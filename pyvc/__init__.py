"""pyvc - verification-condition generator for a subset of Python.

Reads the real source of /repo with `ast`, symbolically executes the functions
named by sidecar contracts (in /verif/contracts), emits one verification
condition per path and obligation, and discharges them with z3 / cvc5 / Lean.
See /verif/DESIGN.md section 3.
"""
import os

REPO = os.environ.get("PYVC_REPO", "/repo")
VERIF = os.path.dirname(os.path.dirname(os.path.abspath(__file__)))
