"""Verification driver: explore the paths of one function under its contract,
collect obligations, discharge them."""
from __future__ import annotations

import json
import os
import subprocess
import sys
import tempfile
import time
import traceback

import z3

from .contracts import ContractSet, _tb, make_value, snapshot
from .ctx import Ctx, PathEnd
from .interp import Frame, Interp
from .ops import PyRaise, truth, values_equal
from .values import ExcVal, Obj, SBytes, SInt, SStream, Unsupported, as_sbytes, zint
from .world import FuncInfo


class Limits:
    max_paths = 6000
    max_secs = 3000       # wall-clock backstop per function; solver budgets are deterministic (rlimit)
    quick_ms = 400
    solve_ms = 30000


def _flat_inputs(ctx, model):
    """model -> {input name: json value}"""
    out = {}
    for name, spec in ctx.inputs.items():
        kind = spec[0]
        try:
            if kind == "int":
                out[name] = model.eval(spec[1], model_completion=True).as_long()
            elif kind == "bool":
                out[name] = z3.is_true(model.eval(spec[1], model_completion=True))
            elif kind == "bv":
                out[name] = model.eval(spec[1], model_completion=True).as_long()
            elif kind in ("bytes", "stream"):
                n = model.eval(spec[2], model_completion=True).as_long()
                start = 0
                if kind == "stream":
                    # contracts speak about positions relative to the entry position: replay on
                    # the window that starts there (keeps the replay file small)
                    start = max(0, model.eval(spec[3], model_completion=True).as_long())
                n = max(start, min(n, start + 4096))
                bs = []
                for i in range(start, n):
                    b = model.eval(z3.Select(spec[1], i), model_completion=True)
                    b = b.as_long() if z3.is_int_value(b) else 0
                    bs.append(b % 256)
                out[name] = {"hex": bytes(bs).hex()}
                if kind == "stream":
                    out[name]["pos"] = 0
            elif kind == "list":
                n = model.eval(spec[2], model_completion=True).as_long()
                n = max(0, min(n, 256))
                out[name] = {"list": [str(model.eval(z3.Select(spec[1], i), model_completion=True)) for i in range(n)]}
        except Exception as e:  # noqa: BLE001
            out[name] = {"error": str(e)}
    return out


def _solve(ob, ctx, ms):
    """full-budget attempt on one obligation with z3, then the cvc5 CLI"""
    t0 = time.time()
    s = z3.Solver()
    from .ctx import _budget
    _budget(s, ms)
    for h in ob.hyps:
        s.add(h)
    s.add(z3.Not(ob.goal))
    r = s.check()
    ob.secs += time.time() - t0
    if r == z3.unsat:
        ob.status, ob.backend = "proved", "z3"
        return
    if r == z3.sat:
        ob.status, ob.backend = "refuted", "z3"
        try:
            ob.model = _flat_inputs(ctx, s.model())
        except Exception as e:  # noqa: BLE001
            ob.model = {"error": str(e)}
        return
    # unknown: second opinion
    t1 = time.time()
    try:
        txt = ob.smt2()
        r2 = run_cvc5(txt, ms)
    except Exception as e:  # noqa: BLE001
        r2 = "error"
    ob.secs += time.time() - t1
    if r2 == "unsat":
        ob.status, ob.backend = "proved", "cvc5"
    elif r2 == "sat":
        # cvc5 model not mapped back: report undecided-with-hint rather than a violation
        ob.status, ob.backend = "undecided", "cvc5-sat-unmapped"
    else:
        ob.status, ob.backend = "undecided", f"z3:{s.reason_unknown()}"


def run_cvc5(smt2, ms):
    exe = "/usr/bin/cvc5"
    if not os.path.exists(exe):
        return "unavailable"
    with tempfile.NamedTemporaryFile("w", suffix=".smt2", delete=False, dir=os.environ.get("PYVC_WORK", None)) as f:
        f.write("(set-logic ALL)\n" + smt2)
        path = f.name
    try:
        p = subprocess.run([exe, "--tlimit", str(ms), "--strings-exp", path], capture_output=True, text=True, timeout=ms / 1000 + 10)
        out = p.stdout.strip().splitlines()
        return out[0] if out else "error"
    except subprocess.TimeoutExpired:
        return "timeout"
    finally:
        os.unlink(path)


class FuncResult:
    def __init__(self, target, kind):
        self.target = target
        self.kind = kind
        self.obligations = []     # dicts
        self.paths = 0
        self.cut_paths = 0
        self.unsupported = []
        self.called = {}
        self.reach = {}
        self.secs = 0.0
        self.solver_secs = 0.0
        self.ast_hash = None
        self.error = None
        self.notes = []

    def as_dict(self):
        return self.__dict__


def _ob_dict(ob, keep_smt=False):
    d = dict(name=ob.name, status=ob.status, backend=ob.backend, secs=round(ob.secs, 4), model=ob.model, note=ob.note)
    if keep_smt or ob.status != "proved":
        try:
            d["smt2"] = ob.smt2()
        except Exception:  # noqa: BLE001
            d["smt2"] = None
    d["goal"] = str(ob.goal)[:400]
    return d


def bind_symbolic_args(I, fi, contract_types, tenv):
    """symbolic arguments of `fi` from declared types (defaults used where a type is absent)"""
    a = fi.node.args
    env = {}
    params = [x.arg for x in a.posonlyargs + a.args] + [x.arg for x in a.kwonlyargs]
    defaults = {}
    pos = [x.arg for x in a.posonlyargs + a.args]
    for name, d in zip(pos[len(pos) - len(a.defaults):], a.defaults):
        defaults[name] = d
    for x, d in zip(a.kwonlyargs, a.kw_defaults):
        if d is not None:
            defaults[x.arg] = d
    mf = Frame(fi, fi.module, {})
    for name in params:
        if name in contract_types:
            env[name] = make_value(I, name, contract_types[name], tenv)
        elif name in defaults:
            env[name] = I.eval(defaults[name], mf)
        elif name == "cls" and fi.kind == "classmethod":
            env[name] = fi.cls
        else:
            raise Unsupported(f"no type declared for parameter {name!r} of {fi.fullname}")
    return env


def verify_function(world, cs, contract, limits=Limits):
    res = FuncResult(contract.target, "function")
    t0 = time.time()
    fi = world.find(contract.target)
    if not isinstance(fi, FuncInfo):
        res.error = f"target {contract.target} not found in the working tree"
        return res
    res.ast_hash = fi.ast_hash()
    pending = [[]]
    seen_names = {}
    while pending:
        if res.paths >= limits.max_paths or time.time() - t0 > limits.max_secs:
            res.unsupported.append(f"path/time limit reached ({res.paths} paths)")
            break
        prefix = pending.pop()
        ctx = Ctx(prefix, quick_ms=limits.quick_ms, native_mod=bool(contract.options.get("native_mod")))
        ctx.loop_cut = False
        I = Interp(world, ctx, cs.contracts)
        I.tenv = cs.tenv
        I.loop_hooks = cs.loop_hooks()
        I.no_merge = contract.options.get("via") == "lean"
        res.paths += 1
        try:
            try:
                env = bind_symbolic_args(I, fi, contract.types, cs.tenv)
                memo = {}
                entry = {k: snapshot(v, memo) for k, v in env.items()}
                ns = dict(env)
                for k, v in entry.items():
                    ns[k + "0"] = v
                if contract.pre is not None:
                    ctx.assume(_tb(truth(contract.eval_clause(I, contract.pre, ns))))
                ctx.mark_reach("pre")
                for cl in contract.splits:
                    sp = contract.eval_clause(I, cl, ns)
                    expr, lo, hi = sp
                    from .ops import zi as _zi
                    ctx.prove(f"split.{cl.name}.in_range@{contract.target}", z3.And(_zi(expr) >= lo, _zi(expr) <= hi))
                    ctx.split_int(_zi(expr), lo, hi)
                outcome = None
                try:
                    v = I.run_body(fi, env)
                    outcome = ("ret", v)
                except PyRaise as e:
                    outcome = ("raise", e.exc)
                ctx.mark_reach("exit." + outcome[0])
                check_outcome(I, contract, fi, ns, entry, outcome)
                if contract.options.get("via") == "lean" and outcome[0] == "ret":
                    lean_obligation(I, contract, res, outcome[1])
            except PathEnd:
                if getattr(ctx, "loop_cut", False):
                    res.cut_paths += 1
            except PyRaise as e:
                # an exception escaping a clause of the contract itself
                res.unsupported.append(f"contract clause raised {e.exc.cls.__name__} (path {len(ctx.taken)})")
            except Unsupported as e:
                msg = str(e)
                if msg not in res.unsupported:
                    res.unsupported.append(msg)
            except RecursionError:
                res.unsupported.append("recursion limit in generator")
        except Exception:  # noqa: BLE001  generator crash
            res.error = traceback.format_exc()
            break
        if os.environ.get("PYVC_TRACE"):
            print(f"[path {res.paths}] decisions={''.join('T' if d else 'F' for d in ctx.taken)} obl={len(ctx.obligations)} last={[str(x)[:100] for x in ctx.pc[-2:]]}", file=sys.stderr)
        pending.extend(ctx.pending)
        for ob in ctx.obligations:
            if ob.status == "open":
                _solve(ob, ctx, limits.solve_ms)
            res.obligations.append(_ob_dict(ob))
        for k, v in ctx.reach.items():
            res.reach[k] = res.reach.get(k, False) or v
        res.solver_secs += ctx.solver_secs
        for k, v in I.called.items():
            res.called[k] = v
        for n in ctx.notes:
            if n not in res.notes:
                res.notes.append(n)
    if not res.reach.get("pre", True) and contract.options.get("witness") and contract.pre is not None:
        # the solver could not exhibit a model of a non-linear precondition: check the contract's
        # own witness concretely (vacuity guard)
        try:
            ctx = Ctx([])
            I = Interp(world, ctx, cs.contracts)
            I.tenv = cs.tenv
            w = contract.options["witness"]
            ns = {k: _concrete_value(I, v, contract.types.get(k, ""), cs.tenv) for k, v in w.items()}
            if truth(contract.eval_clause(I, contract.pre, ns)) is True:
                res.reach["pre"] = True
                res.reach["pre.by_witness"] = True
        except Exception as e:  # noqa: BLE001
            res.notes.append(f"witness check failed: {e}")
    res.secs = time.time() - t0
    return res


def _concrete_value(I, v, typ, tenv):
    from .values import Obj
    if typ.startswith("obj:") and isinstance(v, dict):
        sh = tenv.shapes[typ[4:]]
        return Obj(sh.ci, {k: _concrete_value(I, x, sh.fields.get(k, ""), tenv) for k, x in v.items()})
    return v


def lean_obligation(I, contract, res, val):
    """the field statement of this path, discharged by Lean (see pyvc/lean.py)"""
    from . import lean
    from .ops import zi
    ctx = I.ctx
    o = contract.options
    pvar = ctx.inputs[o["lean_p"]][1]
    outs = [zi(x) for x in (val if isinstance(val, tuple) else (val,))]
    name = f"lean.{contract.name}@{contract.target}"
    try:
        src, dropped = lean.emit(name, pvar, list(ctx.pc), outs, o.get("lean_pre", []), o["lean_post"], o["lean_tactic"])
    except lean.NoTransport as e:
        res.unsupported.append(f"lean transport: {e}")
        return
    tag = f"{contract.name}_{res.paths}"
    ok, out, secs, path = lean.run_lean(src, tag)
    res.obligations.append(dict(name=name, status="proved" if ok else "refuted", backend="lean", secs=round(secs, 2), model=None,
                                note=f"{dropped} order hypotheses dropped; file {path}", goal=o["lean_post"][:300],
                                output=("lean: " + out)[-1500:], smt2=None if ok else src))


def check_outcome(I, contract, fi, ns, entry, outcome):
    ctx = I.ctx
    tgt = contract.target
    kind, val = outcome
    if kind == "ret":
        ns = dict(ns)
        ns["result"] = val
        for exc, mode, cl in contract.raises:
            if mode in ("iff", "if"):
                r = truth(contract.eval_clause(I, cl, _entry_ns(ns)))
                ctx.prove(f"raises.{exc}.if@{tgt}", z3.Not(_tb(r)))
        for cl in contract.posts:
            r = truth(contract.eval_clause(I, cl, ns))
            ctx.prove(f"{cl.name}@{tgt}", _tb(r))
    else:
        exc = val
        matched = False
        for name, mode, cl in contract.raises:
            decl = contract.exc_class(I, name)
            if issubclass(exc.cls, decl):
                matched = True
                if mode in ("iff", "only_if"):
                    r = truth(contract.eval_clause(I, cl, _entry_ns(ns)))
                    ctx.prove(f"raises.{name}.only_if@{tgt}", _tb(r))
        if not matched and contract.model is None:
            ctx.prove(f"raises.undeclared.{exc.cls.__name__}@{tgt}", False)
    if contract.model is not None:
        memo = {}
        margs = {k: snapshot(v, memo) for k, v in entry.items()}
        mns = dict(margs)
        try:
            mv = contract.eval_clause(I, contract.model, mns)
            mout = ("ret", mv)
        except PyRaise as e:
            mout = ("raise", e.exc)
        if kind == "ret" and mout[0] == "ret":
            e = values_equal(val, mout[1], ctx)
            ctx.prove(f"model.result@{tgt}", _tb(e))
            for k, v in ns.items():
                if isinstance(v, SStream) and isinstance(mns.get(k), SStream):
                    ctx.prove(f"model.stream_pos.{k}@{tgt}", _tb(values_equal(v.pos, mns[k].pos, ctx)))
        elif kind == "raise" and mout[0] == "raise":
            ok = issubclass(val.cls, mout[1].cls)
            ctx.prove(f"model.raises.{mout[1].cls.__name__}@{tgt}", ok,
                      note=f"code raises {val.cls.__name__}, model raises {mout[1].cls.__name__}")
        elif kind == "ret":
            ctx.prove(f"model.raises.{mout[1].cls.__name__}.if@{tgt}", False, note="model raises, code returns")
        else:
            ctx.prove(f"model.raises.{val.cls.__name__}.only_if@{tgt}", False, note="code raises, model returns")


def _entry_ns(ns):
    """raises-conditions speak about entry values"""
    out = dict(ns)
    for k in list(ns):
        if k.endswith("0") and k[:-1] in ns:
            out[k[:-1]] = ns[k]
    return out


def verify_lemma(world, cs, name, fi, types, options, limits=Limits):
    res = FuncResult(name, "lemma")
    res.ast_hash = fi.ast_hash()
    t0 = time.time()
    pending = [[]]
    while pending:
        if res.paths >= limits.max_paths or time.time() - t0 > limits.max_secs:
            res.unsupported.append(f"path/time limit reached ({res.paths} paths)")
            break
        prefix = pending.pop()
        ctx = Ctx(prefix, quick_ms=limits.quick_ms, native_mod=bool(options.get("native_mod")))
        ctx.loop_cut = False
        contracts = cs.contracts if not options.get("inline_all") else {}
        I = Interp(world, ctx, contracts)
        I.prefer_bv = bool(options.get("bv"))
        I.tenv = cs.tenv
        I.loop_hooks = cs.loop_hooks()
        res.paths += 1
        try:
            try:
                env = bind_symbolic_args(I, fi, types, cs.tenv)
                I.in_lemma = True
                try:
                    v = I.run_body(fi, env)
                    ctx.mark_reach("exit.ret")
                    ctx.prove(f"lemma.{name}", _tb(truth(v)))
                except PyRaise as e:
                    ctx.mark_reach("exit.raise")
                    ctx.prove(f"lemma.{name}.no_exception.{e.exc.cls.__name__}", False)
            except PathEnd:
                if getattr(ctx, "loop_cut", False):
                    res.cut_paths += 1
            except Unsupported as e:
                msg = str(e)
                if msg not in res.unsupported:
                    res.unsupported.append(msg)
        except Exception:  # noqa: BLE001
            res.error = traceback.format_exc()
            break
        pending.extend(ctx.pending)
        for ob in ctx.obligations:
            if ob.status == "open":
                _solve(ob, ctx, limits.solve_ms)
            res.obligations.append(_ob_dict(ob))
        for k, v in ctx.reach.items():
            res.reach[k] = res.reach.get(k, False) or v
        res.solver_secs += ctx.solver_secs
        for k, v in I.called.items():
            res.called[k] = v
    res.secs = time.time() - t0
    return res
