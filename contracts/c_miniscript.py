"""Contracts: miniscript compilation is consistent (C15): predicted size = compiled size,
read-back compiles to the same script, the text form re-parses to the same expression
(bounded: generated well-typed expressions over every fragment and wrapper)."""
from btclib.descriptors import miniscript as M
from btclib.exceptions import BTClibRuntimeError, BTClibTypeError, BTClibValueError
from pyvc.api import contract
from spec.ec_ref import SECP256K1 as C
from spec.ec_ref import sec_compressed


def _keys(ctx):
    ks = [sec_compressed(C.mul(k, C.G)) for k in range(2, 12)]
    return [k.hex() if ctx == M.P2WSH else k[1:].hex() for k in ks]


def _gen_expr(rng):
    ctx = rng.choice([M.P2WSH, M.TAPSCRIPT]) if hasattr(M, "TAPSCRIPT") else M.P2WSH
    ks = _keys(ctx)
    rng.shuffle(ks)
    it = iter(ks)

    def key():
        return next(it)
    h32 = bytes(rng.getrandbits(8) for _ in range(32)).hex()
    h20 = bytes(rng.getrandbits(8) for _ in range(20)).hex()

    def b_expr(d):
        """an expression of type B"""
        c = rng.random()
        if d <= 0 or c < 0.25:
            return rng.choice([f"pk({key()})", f"pkh({key()})", f"older({rng.choice([1, 16, 17, 144, 65535])})", f"after({rng.choice([1, 500000000, 499999999])})",
                               f"sha256({h32})", f"hash160({h20})"])
        if c < 0.4:
            return f"and_v(v:{b_expr(d - 1)},{b_expr(d - 1)})"
        if c < 0.5:
            return f"or_d({rng.choice(['pk', 'pkh'])}({key()}),{b_expr(d - 1)})"
        if c < 0.6:
            return f"or_i({b_expr(d - 1)},{b_expr(d - 1)})"
        if c < 0.7:
            return f"andor(pk({key()}),{b_expr(d - 1)},{b_expr(d - 1)})"
        if c < 0.8:
            return f"and_b(pk({key()}),s:pk({key()}))"
        if c < 0.9:
            n = rng.choice([2, 3])
            subs = [f"pk({key()})"] + [f"s:pk({key()})" for _ in range(n - 1)]
            return f"thresh({rng.randrange(1, n + 1)},{','.join(subs)})"
        if ctx == M.P2WSH:
            return f"multi({rng.choice([1, 2])},{key()},{key()})"
        return f"multi_a({rng.choice([1, 2])},{key()},{key()})"
    return dict(expression=b_expr(rng.choice([0, 1, 2])), context=ctx)


def miniscript_run(expression, context):
    try:
        node = M.parse(expression, context)
    except BTClibValueError:
        return None
    script = node.script()
    from spec.bip32_ref import h160
    kh = {h160(bytes.fromhex(k)): bytes.fromhex(k) for k in _keys(context)}
    back = M.from_script(script, context, kh)
    return dict(predicted=node.script_size, actual=len(script), reads_back=M.reads_back(script, context, kh), back_script=back.script(),
                reparsed=M.parse(str(node), context) == node, script=script)


@contract("contracts.c_miniscript.miniscript_run", gen=_gen_expr, props="C15", n_quick=200, n_thorough=5000,
          rule="generated B-type expressions over pk, pkh, older, after, hashes, and_v, or_d, or_i, andor, and_b, thresh, multi / multi_a with v: and s: wrappers, depth <= 2, both contexts; ill-typed ones are skipped")
class MiniscriptBounded:
    def post_consistent(result):
        if result is None:
            return True
        return (result["predicted"] == result["actual"] and result["reads_back"] and result["back_script"] == result["script"] and result["reparsed"])


# ---------------------------------------------------------------- satisfier vs engine
import hashlib  # noqa: E402

_PRV = list(range(2, 10))
_PRE = [bytes([0x40 + i]) * 32 for i in range(4)]
_LOCKTIMES = [0, 1, 99, 100, 101, 499999999, 500000000, 500000001, 600000000]
_SEQUENCES = [0, 1, 15, 16, 17, 144, 65535, 0xFFFFFFFE, 0xFFFFFFFF, (1 << 22) | 16, (1 << 22) | 17, 1 << 31, (1 << 31) | 16]


def _tree(rng, d, want="B"):
    """a generated expression tree: ('frag', args...).  Any wrapper over any subexpression is
    allowed to come out; what the type system refuses is skipped by the driver"""
    c = rng.random()
    if want == "W":
        return (rng.choice(["s:", "a:", "s:", "a:"]), _tree(rng, d - 1))
    if want == "V":
        return ("v:", _tree(rng, d - 1))
    if d <= 0 or c < 0.22:
        k = rng.random()
        if k < 0.3:
            return ("pk", rng.randrange(len(_PRV)))
        if k < 0.4:
            return ("pkh", rng.randrange(len(_PRV)))
        if k < 0.55:
            return ("older", rng.choice([1, 15, 16, 17, 144, 65535, (1 << 22) | 16]))
        if k < 0.7:
            return ("after", rng.choice([1, 100, 499999999, 500000000, 500000001]))
        return (rng.choice(["sha256", "hash256", "ripemd160", "hash160"]), rng.randrange(len(_PRE)))
    if c < 0.36:
        return ("and_v", _tree(rng, d, "V"), _tree(rng, d - 1))
    if c < 0.46:
        return ("and_b", _tree(rng, d - 1), _tree(rng, d, "W"))
    if c < 0.54:
        return ("or_b", ("pk", rng.randrange(len(_PRV))), _tree(rng, d, "W"))
    if c < 0.62:
        return ("or_d", ("pk", rng.randrange(len(_PRV))), _tree(rng, d - 1))
    if c < 0.68:
        return ("or_c_v", ("pk", rng.randrange(len(_PRV))), _tree(rng, d, "V"), _tree(rng, d - 1))
    if c < 0.76:
        return ("or_i", _tree(rng, d - 1), _tree(rng, d - 1))
    if c < 0.84:
        return ("andor", ("pk", rng.randrange(len(_PRV))), _tree(rng, d - 1), _tree(rng, d - 1))
    if c < 0.93:
        n = rng.choice([2, 3])
        return ("thresh", rng.randrange(1, n + 1), _tree(rng, d - 1)) + tuple(_tree(rng, d, "W") for _ in range(n - 1))
    ks = rng.sample(range(len(_PRV)), rng.choice([2, 3]))
    return ("multi", rng.randrange(1, len(ks) + 1)) + tuple(ks)


def _text(t, ctx):
    f = t[0]
    key = lambda i: (sec_compressed(C.mul(_PRV[i], C.G)) if ctx == M.P2WSH else sec_compressed(C.mul(_PRV[i], C.G))[1:]).hex()
    if f in ("pk", "pkh"):
        return f"{f}({key(t[1])})"
    if f in ("older", "after"):
        return f"{f}({t[1]})"
    if f in ("sha256", "hash256", "ripemd160", "hash160"):
        return f"{f}({_digest(f, _PRE[t[1]]).hex()})"
    if f in ("s:", "a:", "v:"):
        inner = _text(t[1], ctx)
        # wrappers chain without a second colon: v: over s:X is written vs:X
        head, sep, _ = inner.partition(":")
        if sep and head and all(ch in "asctdvjnlu" for ch in head):
            return f[0] + inner
        return f + inner
    if f == "or_c_v":
        return f"and_v(v:or_c({_text(t[1], ctx)},{_text(t[2], ctx)}),{_text(t[3], ctx)})"
    if f == "thresh":
        return f"thresh({t[1]}," + ",".join(_text(x, ctx) for x in t[2:]) + ")"
    if f == "multi":
        name = "multi" if ctx == M.P2WSH else "multi_a"
        return f"{name}({t[1]}," + ",".join(key(i) for i in t[2:]) + ")"
    return f"{f}(" + ",".join(_text(x, ctx) for x in t[1:]) + ")"


def _digest(f, pre):
    if f == "sha256":
        return hashlib.sha256(pre).digest()
    if f == "hash256":
        return hashlib.sha256(hashlib.sha256(pre).digest()).digest()
    if f == "ripemd160":
        from spec.bip32_ref import h160  # noqa: F401
        return hashlib.new("ripemd160", pre).digest()
    return hashlib.new("ripemd160", hashlib.sha256(pre).digest()).digest()


def _holds(t, keys, pres, locktime, sequence):
    """the spending condition of the tree for what is available (BIP379 semantics; BIP65 / BIP112
    for the lock times)"""
    f = t[0]
    if f in ("pk", "pkh"):
        return t[1] in keys
    if f == "older":
        v = t[1]
        if sequence & (1 << 31):
            return False
        if (v & (1 << 22)) != (sequence & (1 << 22)):
            return False
        return (v & 0xFFFF) <= (sequence & 0xFFFF)
    if f == "after":
        v = t[1]
        if (v >= 500000000) != (locktime >= 500000000):
            return False
        return v <= locktime and sequence != 0xFFFFFFFF
    if f in ("sha256", "hash256", "ripemd160", "hash160"):
        return t[1] in pres
    if f in ("s:", "a:", "v:"):
        return _holds(t[1], keys, pres, locktime, sequence)
    h = lambda x: _holds(x, keys, pres, locktime, sequence)
    if f in ("and_v", "and_b"):
        return h(t[1]) and h(t[2])
    if f in ("or_b", "or_d", "or_i"):
        return h(t[1]) or h(t[2])
    if f == "or_c_v":
        return (h(t[1]) or h(t[2])) and h(t[3])
    if f == "andor":
        return (h(t[1]) and h(t[2])) or h(t[3])
    if f == "thresh":
        return sum(1 for x in t[2:] if h(x)) >= t[1]
    if f == "multi":
        return sum(1 for i in t[2:] if i in keys) >= t[1]
    raise LookupError(f)


def _gen_spend_ms(rng):
    ctx = rng.choice([M.P2WSH, M.P2WSH, M.TAPSCRIPT])
    if rng.random() < 0.12:
        # a chain at the executed-op limit: n times v:older(k), then a key
        n, k = rng.choice([60, 97, 98, 99, 100, 101]), rng.choice([15, 16, 17])
        t = ("pk", 0)
        for _ in range(n):
            t = ("and_v", ("v:", ("older", k)), t)
        return dict(tree=t, context=ctx, keys=[0], pres=[], locktime=0, sequence=rng.choice([16, 17, 144]))
    if rng.random() < 0.15:
        # a wrapper over a compound of plain keys, every key available: the stack-shape
        # properties (z, o, n) of the compound decide whether the wrapper is well typed
        leaf = lambda: (rng.choice(["pk", "pk", "pkh"]), rng.randrange(len(_PRV)))
        y = rng.choice([("and_v", ("v:", leaf()), leaf()), ("or_i", leaf(), leaf()), ("andor", leaf(), leaf(), leaf()), ("or_d", leaf(), leaf()),
                        ("and_b", leaf(), ("s:", leaf())), ("and_v", ("v:", leaf()), ("and_v", ("v:", leaf()), leaf()))])
        w = (rng.choice(["s:", "a:"]), y)
        t = rng.choice([("and_b", leaf(), w), ("or_b", leaf(), w), ("thresh", rng.choice([1, 2]), leaf(), w)])
        return dict(tree=t, context=ctx, keys=list(range(len(_PRV))), pres=[], locktime=0, sequence=0)
    t = _tree(rng, rng.choice([1, 2, 2, 3]))
    nk = rng.choice([0, 2, 4, 8, 8])
    return dict(tree=t, context=ctx, keys=sorted(rng.sample(range(len(_PRV)), nk)), pres=sorted(rng.sample(range(len(_PRE)), rng.choice([0, 2, 4]))),
                locktime=rng.choice(_LOCKTIMES), sequence=rng.choice(_SEQUENCES))


def miniscript_spend(tree, context, keys, pres, locktime, sequence):
    """parse the generated expression; when the library calls it sane, sign for the available
    keys with the reference signers over the reference digests, ask for a satisfaction and hand
    the witness to the engine"""
    from btclib.script.engine import verify_input
    from btclib.script.script_pub_key import ScriptPubKey
    from btclib.script.witness import Witness
    from btclib.tx.out_point import OutPoint
    from btclib.tx.tx import Tx
    from btclib.tx.tx_in import TxIn
    from btclib.tx.tx_out import TxOut
    from spec import bip340_ref, sighash as sh, taproot_ref
    from spec.der import der_sig
    from spec.ecdsa_ref import sign_raw
    text = _text(tree, context)
    try:
        node = M.parse(text, context)
    except BTClibValueError:
        return dict(sane=False)
    if not node.is_sane:
        return dict(sane=False)
    script = node.script()
    tx = Tx(2, locktime, [TxIn(OutPoint(b"\x03" * 32, 0), b"", sequence, Witness([]), check_validity=False)], [TxOut(900, b"\x51")], check_validity=False)
    sigs = {}
    if context == M.P2WSH:
        spk = b"\x00\x20" + hashlib.sha256(script).digest()
        prevouts = [TxOut(5000, ScriptPubKey(spk, check_validity=False), check_validity=False)]
        digest = sh.bip143(script, tx, 0, 1, 5000)
        for i in keys:
            r, s, _ = sign_raw(C, int.from_bytes(digest, "big"), _PRV[i], int.from_bytes(hashlib.sha256(digest + bytes([i])).digest(), "big") % C.n or 1)
            sigs[sec_compressed(C.mul(_PRV[i], C.G))] = der_sig(r, min(s, C.n - s)) + b"\x01"
        tail = [script]
    else:
        internal = C.mul(77, C.G)[0].to_bytes(32, "big")
        lh = taproot_ref.leaf_hash(0xC0, script)
        parity, q = taproot_ref.tweak_pubkey(internal, lh)
        prevouts = [TxOut(5000, ScriptPubKey(b"\x51\x20" + q, check_validity=False), check_validity=False)]
        msg = sh.bip341(tx, 0, prevouts, 0, 1, b"", lh + b"\x00" + b"\xff\xff\xff\xff")
        for i in keys:
            sigs[sec_compressed(C.mul(_PRV[i], C.G))[1:]] = bip340_ref.sign(msg, _PRV[i], bytes(32))
        tail = [script, bytes([0xC0 | parity]) + internal]
    spend = M.SpendContext(sha256_preimages={_digest("sha256", _PRE[i]): _PRE[i] for i in pres}, hash256_preimages={_digest("hash256", _PRE[i]): _PRE[i] for i in pres},
                           ripemd160_preimages={_digest("ripemd160", _PRE[i]): _PRE[i] for i in pres}, hash160_preimages={_digest("hash160", _PRE[i]): _PRE[i] for i in pres},
                           locktime=locktime, sequence=sequence, version=2)
    try:
        stack = node.satisfy(sigs, spend)
    except BTClibValueError:
        return dict(sane=True, produced=False, text=text)
    tx.vin[0].script_witness = Witness(list(stack) + tail)
    try:
        verify_input(prevouts, tx, 0)
        accepted, why = True, ""
    except BTClibValueError as e:
        accepted, why = False, str(e)[:100]
    return dict(sane=True, produced=True, accepted=accepted, why=why, text=text, n_items=len(stack), size=sum(len(x) for x in stack),
                max_items=node.max_stack_items, max_size=node.max_witness_size, max_ops=node.max_ops, script_len=len(script), predicted=node.script_size)


@contract("contracts.c_miniscript.miniscript_spend", gen=_gen_spend_ms, props="C15", n_quick=400, n_thorough=12000,
          rule="generated expressions (depth <= 3) over pk, pkh, older, after, four hashes, and_v, and_b, or_b, or_c, or_d, or_i, andor, thresh, multi / multi_a with s: a: v: wrappers over any subexpression (ill-typed ones are the type system's to refuse); chains of 60..101 v:older(15|16|17) at the 201-op limit; 8 keys, 4 preimages, 9 lock times and 13 sequences at the BIP65/BIP112 boundaries; P2WSH with reference ECDSA over BIP143, tapscript with reference BIP340 over BIP341")
class MiniscriptSpendBounded:
    """a satisfaction the library produces for an expression it calls sane makes the engine accept
    the compiled script, only when the spending condition holds for what was available, within the
    predicted witness items / bytes; P2WSH programs stay within 201 ops"""

    def post_satisfaction_is_sound(tree, context, keys, pres, locktime, sequence, result):
        if not result["sane"] or not result["produced"]:
            return True
        ok = result["accepted"] and _holds(tree, set(keys), set(pres), locktime, sequence)
        ok = ok and result["n_items"] <= result["max_items"] and result["predicted"] == result["script_len"]
        if context == M.P2WSH:
            ok = ok and result["max_ops"] <= 201
        return ok

    def post_witness_size_within_bound(result):
        if not result["sane"] or not result["produced"]:
            return True
        # the static bound counts a 73-byte ECDSA signature where the reference signer's low-s DER is 71..72
        return result["size"] <= result["max_size"]


# ---------------------------------------------------------------- lock-time rules, deductive
from pyvc.api import shape  # noqa: E402


@shape("btclib.descriptors.miniscript.SpendContext", fields=dict(locktime="u32", sequence="u32", version="int[1..3]"))
class SpendContextShape:
    def inv(self):
        return True

    def build(locktime, sequence, version):
        return M.SpendContext(locktime=locktime, sequence=sequence, version=version)


@contract("btclib.descriptors.miniscript.SpendContext._after", types=dict(self="obj:SpendContext", value="u32"), props="C15 C10")
class AfterRule:
    """BIP65 as the interpreter enforces it: same kind of lock time on both sides of 500000000,
    the transaction's at least the fragment's, and a sequence that does not disable nLockTime"""

    def post_bip65(self, value, result):
        same_kind = (value >= 500000000) == (self.locktime >= 500000000)
        return result == (same_kind and value <= self.locktime and self.sequence != 0xFFFFFFFF)


@contract("btclib.descriptors.miniscript.SpendContext._older", types=dict(self="obj:SpendContext", value="u32"), props="C15 C10")
class OlderRule:
    """BIP112 as the interpreter enforces it: version >= 2, disable bit (31) clear, same unit
    (bit 22), and the low 16 bits of the sequence at least those of the fragment"""

    def post_bip112(self, value, result):
        s = self.sequence
        enabled = self.version >= 2 and s < 2**31
        same_unit = ((value // 2**22) % 2) == ((s // 2**22) % 2)
        return result == (enabled and same_unit and value % 65536 <= s % 65536)
