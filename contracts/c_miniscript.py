"""Contracts: miniscript compilation is consistent (C15): predicted size = compiled size,
read-back compiles to the same script, the text form re-parses to the same expression
(bounded: generated well-typed expressions over every fragment and wrapper)."""
from btclib.descriptors import miniscript as M
from btclib.exceptions import BTClibRuntimeError, BTClibTypeError, BTClibValueError
from pyvc.api import contract
from spec.ec_ref import SECP256K1 as C
from spec.ec_ref import sec_compressed


def _keys(ctx):
    ks = [sec_compressed(C.mul(k, C.G)) for k in range(2, 12)]
    return [k.hex() if ctx == M.P2WSH else k[1:].hex() for k in ks]


def _gen_expr(rng):
    ctx = rng.choice([M.P2WSH, M.TAPSCRIPT]) if hasattr(M, "TAPSCRIPT") else M.P2WSH
    ks = _keys(ctx)
    rng.shuffle(ks)
    it = iter(ks)

    def key():
        return next(it)
    h32 = bytes(rng.getrandbits(8) for _ in range(32)).hex()
    h20 = bytes(rng.getrandbits(8) for _ in range(20)).hex()

    def b_expr(d):
        """an expression of type B"""
        c = rng.random()
        if d <= 0 or c < 0.25:
            return rng.choice([f"pk({key()})", f"pkh({key()})", f"older({rng.choice([1, 16, 17, 144, 65535])})", f"after({rng.choice([1, 500000000, 499999999])})",
                               f"sha256({h32})", f"hash160({h20})"])
        if c < 0.4:
            return f"and_v(v:{b_expr(d - 1)},{b_expr(d - 1)})"
        if c < 0.5:
            return f"or_d({rng.choice(['pk', 'pkh'])}({key()}),{b_expr(d - 1)})"
        if c < 0.6:
            return f"or_i({b_expr(d - 1)},{b_expr(d - 1)})"
        if c < 0.7:
            return f"andor(pk({key()}),{b_expr(d - 1)},{b_expr(d - 1)})"
        if c < 0.8:
            return f"and_b(pk({key()}),s:pk({key()}))"
        if c < 0.9:
            n = rng.choice([2, 3])
            subs = [f"pk({key()})"] + [f"s:pk({key()})" for _ in range(n - 1)]
            return f"thresh({rng.randrange(1, n + 1)},{','.join(subs)})"
        if ctx == M.P2WSH:
            return f"multi({rng.choice([1, 2])},{key()},{key()})"
        return f"multi_a({rng.choice([1, 2])},{key()},{key()})"
    return dict(expression=b_expr(rng.choice([0, 1, 2])), context=ctx)


def miniscript_run(expression, context):
    try:
        node = M.parse(expression, context)
    except BTClibValueError:
        return None
    script = node.script()
    from spec.bip32_ref import h160
    kh = {h160(bytes.fromhex(k)): bytes.fromhex(k) for k in _keys(context)}
    back = M.from_script(script, context, kh)
    return dict(predicted=node.script_size, actual=len(script), reads_back=M.reads_back(script, context, kh), back_script=back.script(),
                reparsed=M.parse(str(node), context) == node, script=script)


@contract("contracts.c_miniscript.miniscript_run", gen=_gen_expr, props="C15", n_quick=200, n_thorough=5000,
          rule="generated B-type expressions over pk, pkh, older, after, hashes, and_v, or_d, or_i, andor, and_b, thresh, multi / multi_a with v: and s: wrappers, depth <= 2, both contexts; ill-typed ones are skipped")
class MiniscriptBounded:
    def post_consistent(result):
        if result is None:
            return True
        return (result["predicted"] == result["actual"] and result["reads_back"] and result["back_script"] == result["script"] and result["reparsed"])
