"""Contracts: btclib.var_int, btclib.var_bytes (C05, C18, C19)."""
from io import BytesIO

from btclib import var_bytes, var_int
from btclib.exceptions import BTClibRuntimeError, BTClibTypeError, BTClibValueError
from pyvc.api import assume, contract, lemma
from spec import codec

U64 = 2**64 - 1


@contract("btclib.var_int._size", types=dict(i="int"))
class VarIntSize:
    def pre(i):
        return 0 <= i <= U64

    def post_is_length_of_encoding(i, result):
        return result == len(codec.enc_varint(i))


@contract("btclib.var_int.serialize", types=dict(i="int"))
class VarIntSerialize:
    def raises_BTClibValueError(i):
        return i < 0 or i > U64

    def post_is_compactsize(i, result):
        return result == codec.enc_varint(i)

    def post_size_agrees(i, result):
        return len(result) == var_int._size(i)


@contract("btclib.var_int.parse", types=dict(stream="stream", max_size="int"))
class VarIntParse:
    """CO3 (only the canonical encoding is accepted), CO4 (reads no more than it needs)"""

    def post_canonical(stream, stream0, max_size, result):
        k = stream.pos - stream0.pos
        return k == len(codec.enc_varint(result)) and stream0.buf[stream0.pos:stream.pos] == codec.enc_varint(result)

    def post_bounded(result, max_size):
        return 0 <= result <= max_size and result <= U64

    def raises_BTClibValueError_only_if(stream, max_size):
        return True


@lemma("var_int.CO2_roundtrip", types=dict(i="int", rest="bytes", max_size="int"))
def varint_roundtrip(i, rest, max_size):
    """every valid value parses back from its encoding, leaving the stream at `rest`"""
    assume(0 <= i <= U64 and i <= max_size)
    s = BytesIO(var_int.serialize(i) + rest)
    j = var_int.parse(s, max_size)
    return j == i and s.read() == rest


@lemma("var_int.CO2_refuses_above_max", types=dict(i="int", rest="bytes", max_size="int"))
def varint_too_big(i, rest, max_size):
    assume(0 <= i <= U64 and i > max_size)
    s = BytesIO(codec.enc_varint(i) + rest)
    try:
        var_int.parse(s, max_size)
    except BTClibValueError:
        return True
    return False
