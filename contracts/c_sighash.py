"""Contracts: btclib.script.sig_hash (C09)."""
from btclib.exceptions import BTClibTypeError, BTClibValueError
from btclib.script import sig_hash
from btclib.script.script_pub_key import ScriptPubKey
from btclib.script.witness import Witness
from btclib.tx.out_point import OutPoint
from btclib.tx.tx import Tx
from btclib.tx.tx_in import TxIn
from btclib.tx.tx_out import TxOut
from contracts.c_tx import small, tx_sane, valid
from pyvc.api import assume, contract, lemma, shape
from spec import sighash as spec


@contract("btclib.script.sig_hash._serialized_hash_type", types=dict(hash_type="int"), props="C09")
class SerializedHashType:
    def raises_BTClibValueError(hash_type):
        return not (-(2**31) <= hash_type < 2**32)

    def post_four_bytes(hash_type, result):
        return result == (hash_type % 2**32).to_bytes(4, "little")


@contract("btclib.script.sig_hash._serialized_spend_type", types=dict(ext_flag="int", annex_present="int[0..1]"), props="C09")
class SerializedSpendType:
    def raises_BTClibValueError(ext_flag):
        return not (0 <= ext_flag <= 127)

    def post_byte(ext_flag, annex_present, result):
        return result == bytes([2 * ext_flag + annex_present])


@contract("btclib.script.sig_hash.segwit_v0",
          types=dict(script_code="bytes", tx="obj:Tx", vin_i="int", hash_type="u32", amount="int", precomputed="none"), props="C09")
class SegwitV0:
    """BIP143 for every 32-bit hash type, all field values; 1..2 inputs, 1..2 outputs"""

    def pre(script_code, tx, vin_i, amount):
        return small(script_code) and tx_sane(tx) and valid(tx) and 0 <= vin_i < len(tx.vin) and 0 <= amount <= 21 * 10**14

    def post_bip143(script_code, tx, vin_i, hash_type, amount, result):
        return result == spec.bip143(script_code, tx, vin_i, hash_type, amount)


@contract("btclib.script.sig_hash.taproot",
          types=dict(transaction="obj:Tx", input_index="int", prevouts="list[obj:TxOut;1..2]", hashtype="int[0..255]", ext_flag="int[0..1]",
                     annex="oneof[const(b'')|bytes]", message_extension="oneof[const(b'')|bytes[37]]", precomputed="none"), props="C09", tier="deep")
class Taproot:
    """BIP341 SigMsg for the seven defined hash types (others refused), annex present/absent,
    key path / script path extension; 1..2 inputs and outputs"""

    def pre(transaction, input_index, prevouts, annex):
        return (tx_sane(transaction) and valid(transaction) and len(prevouts) == len(transaction.vin)
                and all(valid(p) and small(p.script_pub_key.script) for p in prevouts)
                and 0 <= input_index < len(transaction.vin) and small(annex))

    def raises_BTClibValueError(transaction, input_index, prevouts, hashtype, ext_flag, annex, message_extension):
        return spec.bip341_sigmsg(transaction, input_index, prevouts, hashtype, ext_flag, annex, message_extension) is None

    def post_bip341(transaction, input_index, prevouts, hashtype, ext_flag, annex, message_extension, result):
        return result == spec.bip341(transaction, input_index, prevouts, hashtype, ext_flag, annex, message_extension)


# ---------------------------------------------------------------- bounded stand-ins
def _rand_script(rng, codeseps=True):
    parts = []
    for _ in range(rng.randrange(0, 6)):
        c = rng.random()
        if c < 0.25 and codeseps:
            parts.append(b"\xab")
        elif c < 0.5:
            n = rng.choice([1, 2, 20, 33, 75])
            body = bytes(rng.choice([0xAB, rng.getrandbits(8)]) for _ in range(n))
            parts.append(bytes([n]) + body)
        elif c < 0.6:
            n = rng.choice([76, 80])
            parts.append(b"\x4c" + bytes([n]) + bytes(rng.getrandbits(8) for _ in range(n)))
        elif c < 0.7:
            parts.append(bytes([rng.choice([0x4C, 0x4D, 0x4E, 0x20])]) + bytes(rng.getrandbits(8) for _ in range(rng.randrange(0, 3))))  # truncated push
        else:
            parts.append(bytes([rng.choice([0x51, 0x76, 0xA9, 0x87, 0x88, 0xAC, 0xAD, 0xAE, 0x63, 0x68])]))
    return b"".join(parts)


def _rand_tx(rng, taproot=False):
    nin, nout = rng.randrange(1, 4), rng.randrange(1, 4)
    vin = []
    for _ in range(nin):
        wit = []
        if rng.random() < 0.6:
            wit = [bytes(rng.getrandbits(8) for _ in range(rng.choice([0, 1, 33, 64, 65]))) for _ in range(rng.randrange(0, 4))]
            if taproot and rng.random() < 0.5:
                wit.append(b"\x50" + bytes(rng.getrandbits(8) for _ in range(rng.randrange(0, 4))))
        vin.append(TxIn(OutPoint(bytes(rng.getrandbits(8) for _ in range(32)), rng.choice([0, 1, 0xFFFFFFFE, rng.getrandbits(31)])),
                        _rand_script(rng, False) if rng.random() < 0.3 else b"", rng.choice([0, 1, 0xFFFFFFFF, 0xFFFFFFFE, rng.getrandbits(32)]), Witness(wit)))
    vout = [TxOut(rng.choice([0, 1, 546, 7 * 10**14, rng.getrandbits(40)]), ScriptPubKey(_rand_script(rng, False), check_validity=False)) for _ in range(nout)]
    return Tx(rng.choice([1, 2, 0, 0xFFFFFFFF]), rng.choice([0, 1, 499999999, 500000000, 0xFFFFFFFF]), vin, vout)


def _rand_hash_type(rng):
    return rng.choice([0, 1, 2, 3, 0x81, 0x82, 0x83, 4, 6, 7, 0x1B, 0x1F, 0x20, 0x47, 0x80, 0xFF, 0x100, 0x101, 0x7FFFFFFF, 0xFFFFFFFF, rng.getrandbits(32), rng.getrandbits(8)])


def _gen_legacy(rng):
    tx = _rand_tx(rng)
    return dict(script_code=_rand_script(rng), tx=tx, vin_i=rng.randrange(len(tx.vin)), hash_type=_rand_hash_type(rng))


@contract("btclib.script.sig_hash.legacy", gen=_gen_legacy, props="C09", n_quick=2000, n_thorough=40000,
          rule="random transactions (1..3 inputs/outputs, boundary field values), script codes with OP_CODESEPARATOR inside and outside pushes and truncated pushes, all kinds of 32-bit hash types")
class LegacyBounded:
    def post_core(script_code, tx, vin_i, hash_type, result):
        return result == spec.legacy(script_code, tx, vin_i, hash_type)


def _gen_segwit(rng):
    tx = _rand_tx(rng)
    pre = sig_hash.PrecomputedTxData(tx, [TxOut(0, b"") for _ in tx.vin]) if rng.random() < 0.5 else None
    return dict(script_code=_rand_script(rng), tx=tx, vin_i=rng.randrange(len(tx.vin)), hash_type=_rand_hash_type(rng),
                amount=rng.getrandbits(40), precomputed=pre)


@contract("btclib.script.sig_hash.segwit_v0", gen=_gen_segwit, props="C09", n_quick=2000, n_thorough=40000)
class SegwitV0Bounded:
    """also: precomputed == direct"""

    def post_bip143(script_code, tx, vin_i, hash_type, amount, precomputed, result):
        return result == spec.bip143(script_code, tx, vin_i, hash_type, amount)


def _gen_taproot(rng):
    tx = _rand_tx(rng, True)
    prevouts = [TxOut(rng.getrandbits(40), ScriptPubKey(b"\x51\x20" + bytes(rng.getrandbits(8) for _ in range(32)))) for _ in tx.vin]
    i = rng.randrange(len(tx.vin))
    ext = bytes(rng.getrandbits(8) for _ in range(32)) + b"\x00\xff\xff\xff\xff" if rng.random() < 0.5 else b""
    annex = b"\x50" + bytes(rng.getrandbits(8) for _ in range(rng.randrange(0, 5))) if rng.random() < 0.4 else b""
    pre = sig_hash.PrecomputedTxData(tx, prevouts) if rng.random() < 0.5 else None
    return dict(transaction=tx, input_index=i, prevouts=prevouts, hashtype=rng.choice([0, 1, 2, 3, 0x81, 0x82, 0x83, 4, 0x80, 0x84, 0xFF]),
                ext_flag=1 if ext else 0, annex=annex, message_extension=ext, precomputed=pre)


@contract("btclib.script.sig_hash.taproot", gen=_gen_taproot, props="C09", n_quick=2000, n_thorough=40000)
class TaprootBounded:
    def raises_BTClibValueError(transaction, input_index, prevouts, hashtype, ext_flag, annex, message_extension):
        return spec.bip341_sigmsg(transaction, input_index, prevouts, hashtype, ext_flag, annex, message_extension) is None

    def post_bip341(transaction, input_index, prevouts, hashtype, ext_flag, annex, message_extension, precomputed, result):
        return result == spec.bip341(transaction, input_index, prevouts, hashtype, ext_flag, annex, message_extension)


def _gen_annex(rng):
    tx = _rand_tx(rng, True)
    i = rng.randrange(len(tx.vin))
    k = rng.choice([1, 2, 2, 3, 4])
    st = [bytes(rng.getrandbits(8) for _ in range(rng.choice([1, 33, 64, 65]))) for _ in range(k)]
    if rng.random() < 0.6:
        st[-1] = b"\x50" + st[-1][1:]
    tx.vin[i].script_witness = Witness(st)
    return dict(tx=tx, vin_i=i)


@contract("btclib.script.sig_hash.taproot_annex_and_ext", gen=_gen_annex, props="C09", n_quick=2000, n_thorough=30000,
          rule="witness stacks of 1..4 elements with and without an annex (first byte 0x50 of the last element)")
class AnnexAndExtBounded:
    def post_bip341(tx, vin_i, result):
        return tuple(result) == tuple(spec.bip341_annex_and_ext(tx.vin[vin_i].script_witness.stack))


# ---------------------------------------------------------------- digests through Psbt and PsbtView (C09)
def psbt_digests(inputs, sequences, lock_time, extra_outputs, sp, hash_type):
    """a version 2 psbt (optionally with a BIP375 silent-payment output whose script has been
    set) is asked for every input's digest directly and through the streamed view; returns the
    two answers and the transaction, previous outputs and input kinds to recompute them from"""
    import hashlib
    from btclib.bip32 import BIP32KeyOrigin
    from btclib.exceptions import BTClibValueError
    from btclib.psbt import psbt as psbt_mod
    from btclib.psbt import silent_payments as role
    from btclib.psbt.psbt import Psbt
    from btclib.psbt.psbt_in import PsbtIn
    from btclib.psbt.psbt_out import PsbtOut
    from btclib.psbt.psbt_view import PsbtView
    from spec.ec_ref import SECP256K1 as C, sec_compressed
    ins, prevouts, kinds = [], [], []
    for k, (d, taproot) in enumerate(inputs):
        P = C.mul(d, C.G)
        spk = (b"\x51\x20" + P[0].to_bytes(32, "big")) if taproot else (b"\x00\x14" + hashlib.new("ripemd160", hashlib.sha256(sec_compressed(P)).digest()).digest())
        hd = {} if taproot else {sec_compressed(P): BIP32KeyOrigin(bytes(4), [k])}
        utxo = TxOut(70_000 + k, spk)
        prevouts.append(utxo)
        kinds.append(taproot)
        ins.append(PsbtIn(witness_utxo=utxo, hd_key_paths=hd, previous_tx_id=bytes([k + 1]) * 32, output_index=k, sequence=sequences[k]))
    outs = [PsbtOut(amount=v, script_pub_key=s) for v, s in extra_outputs]
    if sp:
        info = sec_compressed(C.mul(sp[0], C.G)) + sec_compressed(C.mul(sp[1], C.G))
        outs.insert(min(sp[2], len(outs)), PsbtOut(amount=50_000, sp_v0_info=info))
    psbt = Psbt(2, ins, outs, 2, {}, fallback_lock_time=lock_time, tx_modifiable=0)
    if sp:
        for k, (d, taproot) in enumerate(inputs):
            try:
                role.set_input_share(psbt, k, d, aux=bytes(32))
            except BTClibValueError:
                role.set_input_share(psbt, k, C.n - d, aux=bytes(32))
        role.set_output_scripts(psbt)
    view = PsbtView(psbt.serialize())
    direct, streamed = [], []
    for i, taproot in enumerate(kinds):
        if taproot:
            direct.append(psbt_mod.taproot_sig_hash(psbt, i, hash_type=hash_type))
            streamed.append(view.taproot_sig_hash(i, hash_type=hash_type))
        else:
            ht = hash_type or 1
            direct.append(psbt_mod.ecdsa_sig_hash(psbt, i, hash_type=ht))
            streamed.append(view.ecdsa_sig_hash(i, hash_type=ht))
    scripts = [(o.amount, bytes(o.script_pub_key)) for o in psbt.outputs]
    return direct, streamed, scripts, view.tx == psbt.tx


def _gen_psbt_digests(rng):
    from spec.ec_ref import SECP256K1 as C
    nin = rng.randrange(1, 4)
    nout = rng.randrange(0 if False else 1, 3)
    extra = [(rng.randrange(600, 10**6), rng.choice([b"\x00\x14" + bytes(rng.getrandbits(8) for _ in range(20)), b"\x51\x20" + bytes(range(32)), b"\x6a\x02hi"])) for _ in range(nout)]
    sp = (rng.randrange(1, C.n), rng.randrange(1, C.n), rng.randrange(0, 3)) if rng.random() < 0.6 else None
    return dict(inputs=[(rng.randrange(1, C.n), rng.random() < 0.5) for _ in range(nin)], sequences=[rng.choice([0xFFFFFFFF, 0xFFFFFFFE, 0, 7]) for _ in range(nin)],
                lock_time=rng.choice([0, 0, 500000, 1700000000]), extra_outputs=extra, sp=sp, hash_type=rng.choice([0, 1, 2, 3, 0x81, 0x82, 0x83]))


@contract("contracts.c_sighash.psbt_digests", gen=_gen_psbt_digests, props="C09", n_quick=80, n_thorough=2000,
          rule="version 2 psbts with 1..3 p2wpkh / p2tr inputs, 1..2 ordinary outputs and, in 60%, a BIP375 silent-payment output whose script has been set (info and script together); every hash type")
class PsbtDigestsBounded:
    """the digest a Signer is handed by the psbt, and by the streamed view of its serialization,
    is the BIP143 / BIP341 digest of the transaction the psbt describes"""

    def raises_BTClibValueError(inputs, extra_outputs, sp, hash_type):
        # SIGHASH_SINGLE for a taproot input with no output at its index is refused (BIP341: invalid);
        # BIP143 defines that case (hashOutputs = 0), so a p2wpkh input there has a digest
        nout = len(extra_outputs) + (1 if sp else 0)
        return hash_type & 3 == 3 and any(taproot and i >= nout for i, (_, taproot) in enumerate(inputs))

    def post_digests_are_the_bips(inputs, sequences, lock_time, hash_type, result):
        import hashlib
        from spec.ec_ref import SECP256K1 as C, sec_compressed
        direct, streamed, scripts, same_tx = result
        vin = [TxIn(OutPoint(bytes([k + 1]) * 32, k), b"", sequences[k], Witness([]), check_validity=False) for k in range(len(inputs))]
        vout = [TxOut(v, ScriptPubKey(s, check_validity=False), check_validity=False) for v, s in scripts]
        tx = Tx(2, lock_time, vin, vout, check_validity=False)
        prevouts = []
        for k, (d, taproot) in enumerate(inputs):
            P = C.mul(d, C.G)
            spk = (b"\x51\x20" + P[0].to_bytes(32, "big")) if taproot else (b"\x00\x14" + hashlib.new("ripemd160", hashlib.sha256(sec_compressed(P)).digest()).digest())
            prevouts.append(TxOut(70_000 + k, ScriptPubKey(spk, check_validity=False), check_validity=False))
        want = []
        for i, (d, taproot) in enumerate(inputs):
            if taproot:
                want.append(spec.bip341(tx, i, prevouts, hash_type, 0, b"", b""))
            else:
                code = b"\x76\xa9\x14" + prevouts[i].script_pub_key.script[2:] + b"\x88\xac"
                want.append(spec.bip143(code, tx, i, hash_type or 1, prevouts[i].value))
        return same_tx and direct == want and streamed == want


@shape("btclib.script.witness.Witness#upto3", fields=dict(stack="oneof[tuple[]|tuple[bytes]|tuple[bytes,bytes]|tuple[bytes,bytes,bytes]]"))
class WitnessUpTo3:
    def build(stack):
        return Witness(stack, check_validity=False)


@contract("btclib.script.engine.taproot_get_annex", types=dict(witness="obj:Witness#upto3"), props="C08 C09")
class EngineGetAnnex:
    """BIP341: the annex is the last element of a stack of at least two whose first byte is 0x50
    (an empty element has none); the rest is the stack without it, the witness untouched"""

    def post_bip341(witness, result):
        st = witness.stack
        n = len(st)
        has = n >= 2 and len(st[n - 1]) >= 1 and st[n - 1][0] == 0x50
        annex, rest = result
        if has:
            return annex == st[n - 1] and len(rest) == n - 1 and all(rest[i] == st[i] for i in range(n - 1))
        return annex == b"" and len(rest) == n and all(rest[i] == st[i] for i in range(n))
