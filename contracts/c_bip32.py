"""Contracts: BIP32 derivation against the BIP's equations and its algebraic laws (C07).
Bounded stand-ins against spec/bip32_ref.py (HMAC-SHA512 and EC arithmetic independent of
btclib) plus deductive contracts for the range checks."""
from btclib import slip132
from btclib.bip32 import bip32
from btclib.bip32.bip32 import BIP32KeyData
from btclib.exceptions import BTClibTypeError, BTClibValueError
from btclib.network import NETWORKS
from pyvc.api import contract
from spec import bip32_ref as ref

H = 0x80000000
VERSIONS_PRV = [n.bip32_prv for n in NETWORKS.values()] + [NETWORKS["mainnet"].slip132_p2wpkh_prv, NETWORKS["mainnet"].slip132_p2wpkh_p2sh_prv,
                                                           NETWORKS["testnet"].slip132_p2wsh_prv, NETWORKS["mainnet"].slip132_p2wsh_p2sh_prv]


def _pub_version(v):
    for n in NETWORKS.values():
        for f in ("bip32", "slip132_p2wpkh", "slip132_p2wpkh_p2sh", "slip132_p2wsh", "slip132_p2wsh_p2sh"):
            if getattr(n, f + "_prv") == v:
                return getattr(n, f + "_pub")
    return None


def _rand_index(rng):
    return rng.choice([0, 1, 2, H - 1, H, H + 1, 2**32 - 1, rng.getrandbits(31), H + rng.getrandbits(31)])


def _rand_root(rng):
    seed = bytes(rng.getrandbits(8) for _ in range(rng.choice([16, 32, 64])))
    return ref.master(seed, rng.choice(VERSIONS_PRV))


def _to_btclib(k):
    return BIP32KeyData(k["version"], k["depth"], k["fingerprint"], k["index"], k["chain"], k["key"])


def _neuter_ref(k):
    return dict(k, version=_pub_version(k["version"]), key=ref.pub_of(k))


def _gen_derive(rng):
    root = _rand_root(rng)
    pre = [_rand_index(rng) for _ in range(rng.randrange(0, 3))]
    parent = ref.derive(root, pre)
    if isinstance(parent, str):
        parent = root
    path = [_rand_index(rng) for _ in range(rng.randrange(0, 5))]
    if rng.random() < 0.45:
        parent = _neuter_ref(parent)
        if rng.random() < 0.6:
            path = [i % H for i in path]
    return dict(xkey=_to_btclib(parent), der_path=path)


def _ref_of(xkey):
    return dict(version=xkey.version, depth=xkey.depth, fingerprint=xkey.parent_fingerprint, index=xkey.index, chain=xkey.chain_code, key=xkey.key)


@contract("btclib.bip32.bip32.derive_", gen=_gen_derive, props="C07 C04", both_arms=True, n_quick=250, n_thorough=5000,
          rule="random seeds (128/256/512 bit), every version prefix incl. SLIP132, parents at depth 0..2, private and public parents, paths of 0..4 indexes over the 0 / 2^31-1 / 2^31 / 2^32-1 boundaries")
class DeriveBounded:
    """key, chain code, depth, index, parent fingerprint are BIP32's; a hardened step from a
    public parent is refused"""

    def raises_BTClibValueError(xkey, der_path):
        return isinstance(ref.derive(_ref_of(xkey), der_path), str)

    def post_equations(xkey, der_path, result):
        return result.serialize() == ref.serialize(ref.derive(_ref_of(xkey), der_path))

    def post_split(xkey, der_path, result):
        ok = True
        for cut in range(len(der_path) + 1):
            mid = bip32.derive_(xkey, der_path[:cut])
            ok = ok and bip32.derive_(mid, der_path[cut:]) == result
        return ok

    def post_neuter_commutes(xkey, der_path, result):
        if not xkey.is_private or any(i >= H for i in der_path):
            return True
        return bip32.xpub_from_xprv_(result) == bip32.derive_(bip32.xpub_from_xprv_(xkey), der_path)


def _gen_crack(rng):
    root = _rand_root(rng)
    parent = ref.derive(root, [_rand_index(rng) for _ in range(rng.randrange(0, 3))])
    if isinstance(parent, str):
        parent = root
    i = _rand_index(rng) % H
    child = ref.ckd(parent, i)
    if isinstance(child, str):
        raise ValueError("skip")
    return dict(parent_xpub=_to_btclib(_neuter_ref(parent)), child_xprv=_to_btclib(child), _parent=_to_btclib(parent))


@contract("btclib.bip32.bip32.crack_prv_key_var", gen=lambda rng: {k: v for k, v in _gen_crack(rng).items()}, props="C07", n_quick=150, n_thorough=3000)
class CrackBounded:
    """the recovered parent is the true parent (all five fields and the version prefix)"""

    def post_true_parent(parent_xpub, child_xprv, _parent, result):
        return result == _parent.b58encode() and bip32.xpub_from_xprv_(result) == parent_xpub


def _gen_slip(rng):
    root = ref.master(bytes(rng.getrandbits(8) for _ in range(32)), rng.choice([NETWORKS["mainnet"].bip32_prv, NETWORKS["testnet"].bip32_prv]))
    k = _to_btclib(root if rng.random() < 0.5 else _neuter_ref(root))
    return dict(xkey=k, der_path=[rng.getrandbits(31) for _ in range(rng.randrange(0, 3))])


def _slip_post(fname, field):
    def post(xkey, der_path, result):
        net = NETWORKS[bip32_network(xkey)]
        want_version = getattr(net, field + ("_prv" if xkey.is_private else "_pub"))
        got = BIP32KeyData.b58decode(result)
        plain = bip32.derive_(xkey, der_path)
        same = (got.depth, got.parent_fingerprint, got.index, got.chain_code, got.key) == (plain.depth, plain.parent_fingerprint, plain.index, plain.chain_code, plain.key)
        commute = True
        if xkey.is_private:
            f = getattr(slip132, fname)
            commute = bip32.xpub_from_xprv(result) == f(bip32.xpub_from_xprv_(xkey), der_path)
        return got.version == want_version and same and commute
    return post


def bip32_network(xkey):
    from btclib.network import network_from_xkeyversion
    return network_from_xkeyversion(xkey.version)


@contract("btclib.slip132.p2wpkh_p2sh_xkey", gen=_gen_slip, props="C07", n_quick=80, n_thorough=1500)
class SlipP2wpkhP2shBounded:
    post_version_and_commute = _slip_post("p2wpkh_p2sh_xkey", "slip132_p2wpkh_p2sh")


@contract("btclib.slip132.p2wpkh_xkey", gen=_gen_slip, props="C07", n_quick=80, n_thorough=1500)
class SlipP2wpkhBounded:
    post_version_and_commute = _slip_post("p2wpkh_xkey", "slip132_p2wpkh")


@contract("btclib.slip132.p2pkh_xkey", gen=_gen_slip, props="C07", n_quick=80, n_thorough=1500)
class SlipP2pkhBounded:
    post_version_and_commute = _slip_post("p2pkh_xkey", "bip32")


# ---------------------------------------------------------------- deductive: range checks
@contract("btclib.bip32.bip32._assert_valid_depth_and_index", types=dict(depth="int", index="int", parent_fingerprint="bytes[4]"), props="C07 C19")
class AssertValidDepthAndIndex:
    def raises_BTClibValueError(depth, index, parent_fingerprint):
        bad_range = not (0 <= depth <= 255) or not (0 <= index <= 0xFFFFFFFF)
        root_mismatch = depth == 0 and (index != 0 or parent_fingerprint != b"\x00" * 4)
        return bad_range or root_mismatch
