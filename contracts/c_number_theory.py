"""Contracts: btclib.number_theory (C01 modular helpers, C19)."""
import math

from btclib import number_theory as nt
from btclib.exceptions import BTClibTypeError, BTClibValueError
from pyvc.api import assume, contract, lemma


@contract("btclib.number_theory.xgcd_var", types=dict(a="int", b="int"), props="C01")
class Xgcd:
    def pre(a, b):
        return a >= 0 and b >= 0

    def inv0_bezout_b(a, b, x0, y0, a0, b0):
        return b == a0 * x0 + b0 * y0

    def inv0_bezout_a(a, b, x1, y1, a0, b0):
        return a == a0 * x1 + b0 * y1

    def inv0_nonneg(a, b):
        return a >= 0 and b >= 0

    def dec0(a):
        return a

    def post_bezout(a0, b0, result):
        return result[0] == a0 * result[1] + b0 * result[2] and result[0] >= 0


@contract("btclib.number_theory.mod_inv_var", types=dict(a="int", m="int"), props="C01 C19")
class ModInvVar:
    def raises_BTClibValueError_if(m):
        return m < 1

    def post_inverse(a, m, result):
        return 0 <= result < m and (a * result) % m == 1 % m


@contract("btclib.number_theory.mod_inv", types=dict(a="int", m="int"), props="C01 C19")
class ModInv:
    """the blinded inverse is an inverse whatever the blinding factor (randbelow is havoc)"""

    def raises_BTClibValueError_if(m):
        return m < 1

    def post_inverse(a, m, result):
        return 0 <= result < m and (a * result) % m == 1 % m


@contract("btclib.number_theory.mod_sqrt_var", types=dict(a="int", p="int"), props="C01 C19")
class ModSqrtVar:
    """soundness half: whatever is returned squares back to the operand (the two closed-form
    branches; Tonelli-Shanks is the bounded stand-in's)"""

    def pre(p):
        return p >= 2 and p % 8 != 1 and p % 2 == 1

    def raises_BTClibValueError_only_if(a, p):
        return True

    def post_root(a, p, result):
        return 0 <= result < p and result * result % p == a % p


# ---------------------------------------------------------------- bounded stand-ins (native)
def _is_prime(n):
    return n >= 2 and all(n % d for d in range(2, math.isqrt(n) + 1))


def _gen_prime_operand(rng):
    while True:
        p = rng.choice([2, 3, 5, 7, 11, 13, 17, 19, 23, 29, 31, 37, 41, 73, 89, 97, 113, 193, 241, 257, 337, 401, 577, 641, 769, 929,
                        1009, 1153, 65537, 2**31 - 1, 2**61 - 1, 2**127 - 1,
                        0xFFFFFFFFFFFFFFFFFFFFFFFFFFFFFFFFFFFFFFFFFFFFFFFFFFFFFFFEFFFFFC2F,
                        0xFFFFFFFF00000001000000000000000000000000FFFFFFFFFFFFFFFFFFFFFFFF]) if rng.random() < 0.8 else rng.randrange(2, 3000)
        if p > 3000 or _is_prime(p):
            break
    c = rng.random()
    if c < 0.3:
        a = rng.randrange(-3 * p, 3 * p + 1)
    elif c < 0.5:
        a = rng.choice([0, 1, p - 1, p, p + 1, 2 * p, -p, -1, 4, 2])
    else:
        r = rng.randrange(0, p)
        a = r * r % p + rng.choice([0, 0, p, -p, 2 * p])
    return dict(a=a, p=p)


def has_root(a, p):
    a %= p
    if p <= 3000:
        return any(x * x % p == a for x in range(p))
    return a == 0 or pow(a, (p - 1) // 2, p) == 1


@contract("btclib.number_theory.tonelli_var", gen=_gen_prime_operand, props="C01")
class TonelliBounded:
    def raises_BTClibValueError(a, p):
        return not has_root(a, p)

    def post_root(a, p, result):
        return 0 <= result < p and result * result % p == a % p


@contract("btclib.number_theory.mod_sqrt_var", gen=_gen_prime_operand, props="C01")
class ModSqrtBounded:
    def raises_BTClibValueError(a, p):
        return not has_root(a, p)

    def post_root(a, p, result):
        return 0 <= result < p and result * result % p == a % p


@contract("btclib.number_theory.legendre_symbol_var", gen=_gen_prime_operand, props="C01")
class LegendreBounded:
    def pre(p):
        return p > 2

    def post_euler(a, p, result):
        e = pow(a % p, (p - 1) // 2, p)
        return result == (e if e <= 1 else -1)


def _gen_inv(rng):
    m = rng.choice([1, 2, 3, 4, 6, 7, 12, 97, 2**8, 2**61 - 1, rng.randrange(1, 5000), rng.getrandbits(128) | 1])
    return dict(a=rng.choice([0, 1, m, m + 1, -1, rng.randrange(-3 * m, 3 * m + 1)]), m=m)


@contract("btclib.number_theory.mod_inv", gen=_gen_inv, props="C01")
class ModInvBounded:
    def raises_BTClibValueError(a, m):
        return math.gcd(a, m) != 1

    def post_inverse(a, m, result):
        return 0 <= result < m and (a * result) % m == 1 % m


@contract("btclib.number_theory.mod_inv_var", gen=_gen_inv, props="C01")
class ModInvVarBounded:
    def raises_BTClibValueError(a, m):
        return math.gcd(a, m) != 1

    def post_inverse(a, m, result):
        return 0 <= result < m and (a * result) % m == 1 % m


def _gen_batch(rng):
    m = rng.choice([2, 3, 7, 97, 2**61 - 1, rng.randrange(2, 5000)])
    n = rng.choice([0, 1, 2, 3, 5, 17])
    return dict(a=[rng.randrange(-m, 2 * m) for _ in range(n)], m=m)


@contract("btclib.number_theory.mod_inv_batch", gen=_gen_batch, props="C01")
class ModInvBatchBounded:
    def raises_BTClibValueError(a, m):
        return any(math.gcd(x, m) != 1 for x in a)

    def post_inverses(a, m, result):
        return len(result) == len(a) and all(0 <= r < m and (x * r) % m == 1 % m for x, r in zip(a, result))


@contract("btclib.number_theory.mod_inv_batch_var", gen=_gen_batch, props="C01")
class ModInvBatchVarBounded:
    def raises_BTClibValueError(a, m):
        return any(math.gcd(x, m) != 1 for x in a)

    def post_inverses(a, m, result):
        return len(result) == len(a) and all(0 <= r < m and (x * r) % m == 1 % m for x, r in zip(a, result))


@contract("btclib.number_theory.xgcd_var", gen=lambda rng: dict(a=rng.randrange(0, 10**6), b=rng.randrange(0, 10**6)), props="C01")
class XgcdBounded:
    def post_gcd(a, b, result):
        return result[0] == math.gcd(a, b) and result[0] == a * result[1] + b * result[2]
