"""Contracts: script numbers, booleans, conditionals (C08 rules)."""
from btclib import utils
from btclib.exceptions import BTClibTypeError, BTClibValueError
from btclib.script.engine import script_op_codes as ops
from btclib.script.engine.flags import ScriptFlag
from pyvc.api import assume, contract, lemma
from spec import core_script as core


@contract("btclib.utils.decode_num", types=dict(data="bytes[0..8]"), props="C08 C19")
class DecodeNum:
    def split_length(data):
        return (len(data), 0, 8)

    def post_is_set_vch(data, result):
        return result == core.scriptnum_set_vch(data)


@contract("btclib.utils.encode_num", types=dict(i="int"), props="C08 C19")
class EncodeNum:
    def raises_BTClibValueError(i):
        return not (-(2**63) <= i <= 2**63 - 1)

    def post_is_serialize(i, result):
        return result == core.scriptnum_serialize(i)


@lemma("script_num.decode_encode_identity", types=dict(i="int"), props="C08")
def decode_encode(i):
    assume(-(2**63) <= i <= 2**63 - 1)
    return utils.decode_num(utils.encode_num(i)) == i


@lemma("script_num.encode_decode_iff_minimal", types=dict(data="bytes[0..5]"), props="C08")
def encode_decode_minimal(data):
    """re-encoding is the identity exactly on Core's minimally encoded numbers"""
    n = len(data)
    for k in range(6):
        if n == k:      # complete case split on the length 0..5 (pins the representation)
            return (utils.encode_num(utils.decode_num(data)) == data) == core.is_minimally_encoded(data)
    return False


@contract("btclib.script.engine.script_op_codes._to_bool", types=dict(element="bytes[0..6]"), props="C08")
class ToBool:
    """CastToBool, negative zero included; element lengths 0..6 (length is the bound)"""

    def split_length(element):
        return (len(element), 0, 6)

    def post_is_cast_to_bool(element, result):
        return result == core.cast_to_bool(element)


# ---------------------------------------------------------------- bounded stand-ins
FLAG_SETS = [ScriptFlag(0), ScriptFlag.MINIMALDATA, ScriptFlag.MINIMALIF, ScriptFlag.MINIMALIF | ScriptFlag.MINIMALDATA]
try:
    from btclib.script.engine.flags import ALL_FLAGS
    FLAG_SETS.append(ALL_FLAGS)
except ImportError:
    pass


def _elem(rng):
    return rng.choice([b"", b"\x00", b"\x01", b"\x02", b"\x80", b"\x81", b"\x00\x00", b"\x01\x00", b"\x00\x80", b"\x00\x01",
                       bytes(rng.getrandbits(8) for _ in range(rng.randrange(0, 6)))])


def _gen_if(rng):
    depth = rng.choice([1, 1, 2, 3])
    cs = [True] + [rng.random() < 0.7 for _ in range(depth - 1)]
    return dict(stack=[_elem(rng) for _ in range(rng.randrange(1, 3))], condition_stack=cs,
                flags=rng.choice(FLAG_SETS), segwit_version=rng.choice([-1, 0, 1]))


def _if_model(stack, condition_stack, flags, segwit_version, negate):
    stack = list(stack)
    cs = list(condition_stack)
    if not all(cs):
        return stack, cs + [False], False
    top = stack[-1]
    if core.minimalif_applies(segwit_version, ScriptFlag.MINIMALIF in flags) and not core.minimalif_ok(top):
        return None, None, True
    stack.pop()
    v = core.cast_to_bool(top)
    return stack, cs + [(not v) if negate else v], False


@contract("btclib.script.engine.script_op_codes.op_if", gen=_gen_if, props="C08", n_quick=3000, n_thorough=50000,
          rule="condition stacks of depth 1..3, top elements incl. non-minimal truths and negative zero, every flag set x segwit version -1/0/1")
class OpIfBounded:
    def raises_BTClibValueError(stack, condition_stack, flags, segwit_version):
        return _if_model(stack, condition_stack, flags, segwit_version, False)[2]

    def post_effect(stack, stack0, condition_stack, condition_stack0, flags, segwit_version):
        s, c, r = _if_model(stack0, condition_stack0, flags, segwit_version, False)
        return stack == s and condition_stack == c


@contract("btclib.script.engine.script_op_codes.op_notif", gen=_gen_if, props="C08", n_quick=3000, n_thorough=50000)
class OpNotifBounded:
    def raises_BTClibValueError(stack, condition_stack, flags, segwit_version):
        return _if_model(stack, condition_stack, flags, segwit_version, True)[2]

    def post_effect(stack, stack0, condition_stack, condition_stack0, flags, segwit_version):
        s, c, r = _if_model(stack0, condition_stack0, flags, segwit_version, True)
        return stack == s and condition_stack == c


# ---------------------------------------------------------------- the interpreter's counters (C08)
@contract("btclib.script.engine.script.script_op_count", types=dict(count="int", increment="int"), props="C08 C19")
class ScriptOpCount:
    """Core: `if (opcode > OP_16 && ++nOpCount > MAX_OPS_PER_SCRIPT)` / `nOpCount += nKeysCount`:
    the sum is returned when it is at most 201 and is an error above"""

    def raises_BTClibValueError(count, increment):
        return count + increment > 201

    def post_sum(count, increment, result):
        return result == count + increment


@contract("btclib.script.engine.script.assert_pub_key_num", types=dict(pub_key_num="int"), props="C08 C19")
class AssertPubKeyNum:
    """Core's SCRIPT_ERR_PUBKEY_COUNT: `nKeysCount < 0 || nKeysCount > MAX_PUBKEYS_PER_MULTISIG`"""

    def raises_BTClibValueError(pub_key_num):
        return pub_key_num < 0 or pub_key_num > 20


@contract("btclib.script.engine.script.assert_signature_num", types=dict(signature_num="int", pub_key_num="int"), props="C08 C19")
class AssertSignatureNum:
    """Core's SCRIPT_ERR_SIG_COUNT: `nSigsCount < 0 || nSigsCount > nKeysCount`"""

    def raises_BTClibValueError(signature_num, pub_key_num):
        return signature_num < 0 or signature_num > pub_key_num


@contract("btclib.script.engine.script_op_codes.assert_stack_size", types=dict(stack="list[bytes;0..3]", altstack="list[bytes;0..3]"), props="C08")
class AssertStackSizeSmall:
    """never an error while stack and altstack together hold at most 1000 elements (small lists:
    the bound itself is exercised by the spend-level stand-ins at 999..1001 elements)"""

    def raises_BTClibValueError(stack, altstack):
        return False


# ---------------------------------------------------------------- CheckPubKeyEncoding, deductive
from btclib.script.engine.flags import ScriptFlag  # noqa: E402

K0 = ScriptFlag(0)
KS = ScriptFlag.STRICTENC
KW = ScriptFlag.WITNESS_PUBKEYTYPE
KSW = ScriptFlag.STRICTENC | ScriptFlag.WITNESS_PUBKEYTYPE
KFLAGS = "oneof[live(contracts.c_script_num.K0)|live(contracts.c_script_num.KS)|live(contracts.c_script_num.KW)|live(contracts.c_script_num.KSW)]"


def _compressed(k):
    return len(k) == 33 and (k[0] == 2 or k[0] == 3)


def _uncompressed(k):
    return len(k) == 65 and k[0] == 4


@contract("btclib.script.engine.script.check_pub_key", types=dict(pub_key="bytes[0..66]", segwit="bool", flags=KFLAGS), props="C08 C19")
class CheckPubKey:
    """Core's CheckPubKeyEncoding as the two errors, and `op_checksig`'s reading of the answer:
    under WITNESS_PUBKEYTYPE in a segwit script anything that is not a compressed key is an
    error; a hybrid prefix is one under STRICTENC; otherwise the answer is whether the octets have
    the length their prefix announces (False is what STRICTENC turns into an error one level up:
    together the two are !IsCompressedOrUncompressedPubKey)"""

    def split_length(pub_key):
        return (len(pub_key), 0, 66)

    def raises_BTClibValueError(pub_key, segwit, flags):
        strict = flags == KS or flags == KSW
        wpk = flags == KW or flags == KSW
        hybrid = len(pub_key) > 0 and (pub_key[0] == 6 or pub_key[0] == 7)
        return (strict and hybrid) or (segwit and wpk and not _compressed(pub_key))

    def post_well_formed(pub_key, result):
        hybrid65 = len(pub_key) == 65 and (pub_key[0] == 6 or pub_key[0] == 7)
        return result == (_compressed(pub_key) or _uncompressed(pub_key) or hybrid65)

    def post_strictenc_reading(pub_key, segwit, flags, result):
        # what op_checksig raises for under STRICTENC is exactly Core's PUBKEYTYPE error
        strict = flags == KS or flags == KSW
        return (not strict) or result == (_compressed(pub_key) or _uncompressed(pub_key))


@contract("btclib.script.engine.tapscript.get_hashtype", types=dict(signature="bytes[0..66]"), props="C08 C09")
class TapscriptGetHashtype:
    """BIP341: a 64-byte signature is SIGHASH_DEFAULT; a 65th byte is the hash type and must not
    be 0x00 (two encodings of one meaning)"""

    def split_length(signature):
        return (len(signature), 0, 66)

    def raises_BTClibValueError(signature):
        return len(signature) == 65 and signature[64] == 0

    def post_type(signature, result):
        return result == (signature[64] if len(signature) == 65 else 0)
