"""Contracts: script numbers, booleans, conditionals (C08 rules)."""
from btclib import utils
from btclib.exceptions import BTClibTypeError, BTClibValueError
from btclib.script.engine import script_op_codes as ops
from btclib.script.engine.flags import ScriptFlag
from pyvc.api import assume, contract, lemma
from spec import core_script as core


@contract("btclib.utils.decode_num", types=dict(data="bytes[0..8]"), props="C08 C19")
class DecodeNum:
    def split_length(data):
        return (len(data), 0, 8)

    def post_is_set_vch(data, result):
        return result == core.scriptnum_set_vch(data)


@contract("btclib.utils.encode_num", types=dict(i="int"), props="C08 C19")
class EncodeNum:
    def raises_BTClibValueError(i):
        return not (-(2**63) <= i <= 2**63 - 1)

    def post_is_serialize(i, result):
        return result == core.scriptnum_serialize(i)


@lemma("script_num.decode_encode_identity", types=dict(i="int"), props="C08")
def decode_encode(i):
    assume(-(2**63) <= i <= 2**63 - 1)
    return utils.decode_num(utils.encode_num(i)) == i


@lemma("script_num.encode_decode_iff_minimal", types=dict(data="bytes[0..5]"), props="C08")
def encode_decode_minimal(data):
    """re-encoding is the identity exactly on Core's minimally encoded numbers"""
    n = len(data)
    for k in range(6):
        if n == k:      # complete case split on the length 0..5 (pins the representation)
            return (utils.encode_num(utils.decode_num(data)) == data) == core.is_minimally_encoded(data)
    return False


@contract("btclib.script.engine.script_op_codes._to_bool", types=dict(element="bytes[0..6]"), props="C08")
class ToBool:
    """CastToBool, negative zero included; element lengths 0..6 (length is the bound)"""

    def split_length(element):
        return (len(element), 0, 6)

    def post_is_cast_to_bool(element, result):
        return result == core.cast_to_bool(element)


# ---------------------------------------------------------------- bounded stand-ins
FLAG_SETS = [ScriptFlag(0), ScriptFlag.MINIMALDATA, ScriptFlag.MINIMALIF, ScriptFlag.MINIMALIF | ScriptFlag.MINIMALDATA]
try:
    from btclib.script.engine.flags import ALL_FLAGS
    FLAG_SETS.append(ALL_FLAGS)
except ImportError:
    pass


def _elem(rng):
    return rng.choice([b"", b"\x00", b"\x01", b"\x02", b"\x80", b"\x81", b"\x00\x00", b"\x01\x00", b"\x00\x80", b"\x00\x01",
                       bytes(rng.getrandbits(8) for _ in range(rng.randrange(0, 6)))])


def _gen_if(rng):
    depth = rng.choice([1, 1, 2, 3])
    cs = [True] + [rng.random() < 0.7 for _ in range(depth - 1)]
    return dict(stack=[_elem(rng) for _ in range(rng.randrange(1, 3))], condition_stack=cs,
                flags=rng.choice(FLAG_SETS), segwit_version=rng.choice([-1, 0, 1]))


def _if_model(stack, condition_stack, flags, segwit_version, negate):
    stack = list(stack)
    cs = list(condition_stack)
    if not all(cs):
        return stack, cs + [False], False
    top = stack[-1]
    if core.minimalif_applies(segwit_version, ScriptFlag.MINIMALIF in flags) and not core.minimalif_ok(top):
        return None, None, True
    stack.pop()
    v = core.cast_to_bool(top)
    return stack, cs + [(not v) if negate else v], False


@contract("btclib.script.engine.script_op_codes.op_if", gen=_gen_if, props="C08", n_quick=3000, n_thorough=50000,
          rule="condition stacks of depth 1..3, top elements incl. non-minimal truths and negative zero, every flag set x segwit version -1/0/1")
class OpIfBounded:
    def raises_BTClibValueError(stack, condition_stack, flags, segwit_version):
        return _if_model(stack, condition_stack, flags, segwit_version, False)[2]

    def post_effect(stack, stack0, condition_stack, condition_stack0, flags, segwit_version):
        s, c, r = _if_model(stack0, condition_stack0, flags, segwit_version, False)
        return stack == s and condition_stack == c


@contract("btclib.script.engine.script_op_codes.op_notif", gen=_gen_if, props="C08", n_quick=3000, n_thorough=50000)
class OpNotifBounded:
    def raises_BTClibValueError(stack, condition_stack, flags, segwit_version):
        return _if_model(stack, condition_stack, flags, segwit_version, True)[2]

    def post_effect(stack, stack0, condition_stack, condition_stack0, flags, segwit_version):
        s, c, r = _if_model(stack0, condition_stack0, flags, segwit_version, True)
        return stack == s and condition_stack == c
