"""Contracts: BIP340 sign / verify / batch-verify against the BIP's reference (C03, C04 arms, C19)."""
from btclib.curves.curve import CURVES, secp256k1
from btclib.ecc import ssa
from btclib.exceptions import BTClibRuntimeError, BTClibTypeError, BTClibValueError
from pyvc.api import contract
from spec import bip340_ref as ref
from spec.ec_ref import SECP256K1 as C


def _key(rng):
    return rng.choice([1, 2, 3, 4, 5, 6, 7, C.n - 1, C.n - 2, rng.randrange(1, C.n), rng.getrandbits(64) + 1])


def _msg(rng):
    return bytes(rng.getrandbits(8) for _ in range(rng.choice([0, 1, 17, 32, 33, 64, 100])))


def _gen_sign(rng):
    return dict(msg=_msg(rng), prv_key=_key(rng), aux=bytes(rng.getrandbits(8) for _ in range(32)) if rng.random() < 0.8 else bytes(32))


@contract("btclib.ecc.ssa.sign_", gen=_gen_sign, props="C03 C04", both_arms=True, n_quick=120, n_thorough=3000,
          rule="messages of length 0..100, boundary and random keys (both y parities), random and all-zero aux")
class SignBounded:
    """byte for byte the signature BIP340's default signing defines; verifies"""

    def post_is_reference(msg, prv_key, aux, result):
        return result.serialize() == ref.sign(msg, prv_key, aux)

    def post_verifies(msg, prv_key, aux, result):
        x = C.mul(prv_key, C.G)[0]
        return ssa.verify_(msg, x, result) is True


SMALL_CURVES = [c for name, c in CURVES.items() if name in ("secp112r1", "secp112r2", "secp128r1", "secp160k1", "secp160r1", "secp160r2", "secp192k1", "secp224k1", "secp256r1")]


def _gen_sign_any(rng):
    import hashlib
    ec = rng.choice(SMALL_CURVES)
    hf = rng.choice([hashlib.sha1, hashlib.sha224, hashlib.sha256, hashlib.sha384])
    q = rng.choice([1, 2, 3, 4, 5, 6, 7, 8, 9, ec.n - 1, rng.randrange(1, ec.n)])
    return dict(msg=_msg(rng), prv_key=q, aux=bytes(rng.getrandbits(8) for _ in range(hf().digest_size)), ec=ec, hf=hf)


@contract("btclib.ecc.ssa.sign_", gen=_gen_sign_any, props="C03 C19", n_quick=200, n_thorough=4000,
          rule="every catalogued curve offered to the scheme with field/order of different octet widths x sha1/sha224/sha256/sha384, small keys of both parities")
class SignAnyCurveBounded:
    """on every curve and hash function: a signature is produced (no builtin exception), it is
    reproducible, and it verifies under the signer's x-only key"""

    def post_verifies(msg, prv_key, aux, ec, hf, result):
        from btclib.curves.curve import mult
        x = mult(prv_key, ec=ec)[0]
        again = ssa.sign_(msg, prv_key, aux, ec, hf)
        return ssa.verify_(msg, x, result, hf) is True and again == result


def _gen_verify(rng):
    d = _key(rng)
    msg = _msg(rng)
    sig = ref.sign(msg, d, bytes(32))
    px = C.mul(d, C.G)[0]
    r, s = int.from_bytes(sig[:32], "big"), int.from_bytes(sig[32:], "big")
    c = rng.random()
    if c < 0.1:
        r = rng.choice([r + 1, C.p, C.p + 1, r ^ 1, 0])
    elif c < 0.2:
        s = rng.choice([s + 1, C.n, C.n + s if C.n + s < 2**256 else s ^ 1, C.n - s, 0])
    elif c < 0.35:
        px = rng.choice([px + 1, C.p, C.p + px if C.p + px < 2**256 else 5, -1, -px, 0, 2**256 - 1, rng.randrange(C.p)])
    elif c < 0.45:
        msg = msg + b"\x00"
    sig_arg = rng.choice(["bytes", "obj"])
    return dict(msg=msg, Q=px, sig=(r, s, sig_arg))


def _mk_sig(t):
    r, s, kind = t
    if kind == "bytes" and 0 <= r < 2**256 and 0 <= s < 2**256:
        return r.to_bytes(32, "big") + s.to_bytes(32, "big")
    try:
        return ssa.Sig(r, s, check_validity=False)
    except Exception:  # noqa: BLE001
        return r.to_bytes(32, "big") + s.to_bytes(32, "big")


def _verify_wrapper_gen(rng):
    g = _gen_verify(rng)
    return dict(msg=g["msg"], Q=g["Q"], sig=_mk_sig(g["sig"]), _rs=g["sig"][:2])


@contract("btclib.ecc.ssa.verify_", gen=_verify_wrapper_gen, props="C03 C04 C19", both_arms=True, n_quick=400, n_thorough=8000,
          rule="valid signatures and single-field alterations: r+1, r>=p, s>=n, n-s, x+1, x>=p, negative x, x not on the curve, altered message; signature given as 64 bytes or as an object")
class VerifyBounded:
    """true exactly when the BIP340 equation holds for a field element r, an s below the order
    and an x that lifts; false -- never an exception -- otherwise"""

    def post_is_reference(msg, Q, sig, _rs, result):
        return result is ref.verify_ints(msg, Q, _rs[0], _rs[1])


def _gen_batch(rng):
    n = rng.choice([1, 2, 3, 4, 6])
    msgs, Qs, sigs, good = [], [], [], []
    for _ in range(n):
        d = _key(rng)
        m = _msg(rng)
        sg = ref.sign(m, d, bytes(32))
        msgs.append(m); Qs.append(C.mul(d, C.G)[0]); sigs.append([int.from_bytes(sg[:32], "big"), int.from_bytes(sg[32:], "big")])
    c = rng.random()
    if c < 0.25 and n >= 1:
        i = rng.randrange(n)
        sigs[i][1] = (sigs[i][1] + rng.choice([1, 2, C.n - 1])) % C.n
    elif c < 0.5 and n >= 3:
        # two bad members whose errors cancel under equal coefficients
        i, j = rng.sample(range(1, n), 2)
        delta = rng.randrange(1, C.n)
        sigs[i][1] = (sigs[i][1] + delta) % C.n
        sigs[j][1] = (sigs[j][1] - delta) % C.n
    elif c < 0.6 and n >= 2:
        k = rng.randrange(n)
        msgs.append(msgs[k]); Qs.append(Qs[k]); sigs.append(list(sigs[k]))       # duplicate member
    elif c < 0.7:
        i = rng.randrange(n)
        Qs[i] = rng.choice([-1, -Qs[i], C.p, Qs[i] + 1])
    return dict(msgs=msgs, Qs=Qs, sigs=[ssa.Sig(r, s, check_validity=False) for r, s in sigs], _rs=[tuple(x) for x in sigs])


@contract("btclib.ecc.ssa.batch_verify_", gen=_gen_batch, props="C03 C04 C19", both_arms=True, n_quick=150, n_thorough=3000,
          rule="batches of 1..7 members: all good, one bad member at any position, two bad members with cancelling errors, duplicated members, out-of-range keys")
class BatchVerifyBounded:
    """true exactly when every member verifies on its own (soundness is probabilistic in the
    library's own coefficients: a false 'true' has probability 2^-256 per run)"""

    def post_all_members(msgs, Qs, sigs, _rs, result):
        return result is all(ref.verify_ints(m, q, r, s) for m, q, (r, s) in zip(msgs, Qs, _rs))


# ---------------------------------------------------------------- assert_as_valid_: the refusal's class on both arms
def _gen_assert(rng):
    d = _key(rng)
    msg = bytes(rng.getrandbits(8) for _ in range(32))
    P = C.mul(d, C.G)
    px = P[0]
    dd = d if P[1] % 2 == 0 else C.n - d
    sig = ref.sign(msg, d, bytes(32))
    r, s = int.from_bytes(sig[:32], "big"), int.from_bytes(sig[32:], "big")
    c = rng.random()
    if c < 0.3:
        # K = s*G - e*P at infinity: any liftable r, s = e*d
        r = C.mul(rng.randrange(1, C.n), C.G)[0]
        e = int.from_bytes(ref.tagged_hash("BIP0340/challenge", ref.b32(r) + ref.b32(px) + msg), "big") % C.n
        s = e * dd % C.n
    elif c < 0.45:
        # the odd-y twin of the right K: s' = n - k + e*d
        s = (2 * (int.from_bytes(ref.tagged_hash("BIP0340/challenge", ref.b32(r) + ref.b32(px) + msg), "big") % C.n) * dd - s) % C.n
    elif c < 0.6:
        s = (s + 1) % C.n
    return dict(msg=msg, Q=px, sig=ssa.Sig(r, s, check_validity=False), _rs=(r, s))


@contract("btclib.ecc.ssa.assert_as_valid_", gen=_gen_assert, props="C03 C04", both_arms=True, n_quick=300, n_thorough=6000,
          rule="valid signatures; 30% with s = e*d so that the recomputed nonce point is the point at infinity; the odd-y twin of the right nonce point; s + 1")
class AssertAsValidBounded:
    """returns for a signature the BIP340 equation holds for, and refuses every other -- the
    nonce point at infinity included -- with BTClibRuntimeError, on both arms"""

    def raises_BTClibRuntimeError(msg, Q, sig, _rs):
        return not ref.verify_ints(msg, Q, _rs[0], _rs[1])
