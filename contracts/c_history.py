"""Contracts over call histories (C20): wiped signers stay dead; a wallet hands out, as next
address of a branch, the lowest index above every index it has handed out on that branch and
records each address once.  Sidecar drivers replay generated call sequences on the real objects
against a reference ledger (bounded in sequence length)."""
from btclib.exceptions import BTClibRuntimeError, BTClibTypeError, BTClibValueError
from pyvc.api import contract
from spec import bip32_ref
from spec.ec_ref import SECP256K1 as C


def wallet_history(seed_byte, ops):
    """ops: list of ('address', branch, index) | ('next', branch); returns the trace"""
    from btclib.bip32 import bip32
    from btclib.wallet.key_wallet import BIP32KeyWallet
    xprv = bip32.rootxprv_from_seed(bytes([seed_byte]) * 32)
    w = BIP32KeyWallet(xprv, "m/84h/0h/0h", "p2wpkh")
    trace = []
    for op in ops:
        try:
            if op[0] == "address":
                a = w.address(op[1], op[2])
            else:
                a = w.next_address(op[1])
            info = w.address_info(a)
            pos = w.position_of(w.script_pub_key(info.branch, info.index), 40)
            trace.append((a, info.branch, info.index, pos))
        except BTClibValueError:
            trace.append(None)
    return trace, len(w._handed_out)


def _gen_wallet(rng):
    ops = []
    for _ in range(rng.randrange(1, 12)):
        if rng.random() < 0.5:
            ops.append(("address", rng.choice([0, 0, 1, 2]), rng.choice([0, 1, 2, 3, 5, 9, 20, -1])))
        else:
            ops.append(("next", rng.choice([0, 0, 1, 3])))
    return dict(seed_byte=rng.randrange(1, 255), ops=ops)


@contract("contracts.c_history.wallet_history", gen=_gen_wallet, props="C20 C14", n_quick=150, n_thorough=3000,
          rule="call sequences of length 1..11 over address(b, i) and next_address(b), valid and invalid branches / indexes")
class WalletLedgerBounded:
    def post_reference_ledger(ops, result):
        trace, recorded = result
        highest = {}
        seen = {}
        ok = True
        for op, t in zip(ops, trace):
            b = op[1]
            valid_branch = b in (0, 1)
            if op[0] == "address":
                i = op[2]
                if not valid_branch or i < 0:
                    ok = ok and t is None
                    continue
            else:
                if not valid_branch:
                    ok = ok and t is None
                    continue
                i = highest.get(b, -1) + 1      # the lowest index above every index handed out
            ok = ok and t is not None and (t[1], t[2]) == (b, i) and t[3] == (b, i)
            if t is None:
                return False
            if t[0] in seen:
                ok = ok and seen[t[0]] == (b, i)
            seen[t[0]] = (b, i)
            highest[b] = max(highest.get(b, -1), i)
        return ok and recorded == len(seen)


def signer_history(kind, key, ops, curve="secp256k1", hash_name="sha256"):
    """ops over a Signer object: 'sign' | 'wipe' | 'close'(context exit) | 'on' / 'off' (the
    process-wide backend switch); returns per-op outcome, a signature as its bytes"""
    import hashlib
    from btclib.curves import CURVES
    from btclib.curves.curve import is_libsecp256k1_serving, set_libsecp256k1_serving
    from btclib.ecc import dsa, ssa
    ec, hf = CURVES[curve], getattr(hashlib, hash_name)
    mod = dsa if kind == "dsa" else ssa
    was = is_libsecp256k1_serving()
    msg = hf(b"history").digest()
    try:
        s = mod.Signer(key, ec, hf)
        out = []
        for op in ops:
            if op == "sign":
                try:
                    sig = s.sign_(msg) if kind == "dsa" else s.sign_(msg, bytes(len(msg)))
                    out.append(sig if isinstance(sig, bytes) else sig.serialize())
                except BTClibValueError:
                    out.append("refused")
            elif op == "wipe":
                s.wipe()
                out.append("wiped")
            elif op == "close":
                s.__exit__(None, None, None)
                out.append("closed")
            else:
                try:
                    set_libsecp256k1_serving(serving=op == "on")
                except BTClibValueError:
                    pass
                out.append(op)
        set_libsecp256k1_serving(serving=was)
        fresh = dsa.sign_(msg, key, None, True, ec, hf) if kind == "dsa" else ssa.sign_(msg, key, bytes(len(msg)), ec, hf)
        return out, (fresh if isinstance(fresh, bytes) else fresh.serialize())
    finally:
        set_libsecp256k1_serving(serving=was)


def _gen_signer(rng):
    curve, hash_name = rng.choice([("secp256k1", "sha256"), ("secp256k1", "sha256"), ("secp256k1", "sha512"), ("secp256r1", "sha256"), ("secp160k1", "sha1")])
    from btclib.curves import CURVES
    return dict(kind=rng.choice(["dsa", "ssa"]), key=rng.randrange(1, CURVES[curve].n), curve=curve, hash_name=hash_name,
                ops=[rng.choice(["sign", "sign", "sign", "wipe", "close", "on", "off"]) for _ in range(rng.randrange(1, 8))])


@contract("contracts.c_history.signer_history", gen=_gen_signer, props="C20 C04", both_arms=True, n_quick=200, n_thorough=4000,
          rule="call sequences of length 1..7 over sign / wipe / close / backend on / backend off on dsa.Signer and ssa.Signer; secp256k1+sha256 (delegated arm), other curves and hashes (Python arm)")
class SignerWipeBounded:
    """a wiped or closed signer never signs again; a live one gives, whatever the backend has
    been switched to in between, the signature the stateless sign_ gives for the same key"""

    def post_dead_after_wipe(ops, result):
        trace, fresh = result
        dead = False
        ok = True
        for op, r in zip(ops, trace):
            if op == "sign":
                ok = ok and (r == "refused" if dead else r == fresh)
            elif op in ("wipe", "close"):
                dead = True
        return ok
