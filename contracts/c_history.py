"""Contracts over call histories (C20): wiped signers stay dead; a wallet hands out, as next
address of a branch, the lowest index above every index it has handed out on that branch and
records each address once.  Sidecar drivers replay generated call sequences on the real objects
against a reference ledger (bounded in sequence length)."""
from btclib.exceptions import BTClibRuntimeError, BTClibTypeError, BTClibValueError
from pyvc.api import contract
from spec import bip32_ref
from spec.ec_ref import SECP256K1 as C


def wallet_history(seed_byte, ops):
    """ops: list of ('address', branch, index) | ('next', branch); returns the trace"""
    from btclib.bip32 import bip32
    from btclib.wallet.key_wallet import BIP32KeyWallet
    xprv = bip32.rootxprv_from_seed(bytes([seed_byte]) * 32)
    w = BIP32KeyWallet(xprv, "m/84h/0h/0h", "p2wpkh")
    trace = []
    for op in ops:
        try:
            if op[0] == "address":
                a = w.address(op[1], op[2])
            else:
                a = w.next_address(op[1])
            info = w.address_info(a)
            pos = w.position_of(w.script_pub_key(info.branch, info.index), 40)
            trace.append((a, info.branch, info.index, pos))
        except BTClibValueError:
            trace.append(None)
    return trace, len(w._handed_out)


def _gen_wallet(rng):
    ops = []
    for _ in range(rng.randrange(1, 12)):
        if rng.random() < 0.5:
            ops.append(("address", rng.choice([0, 0, 1, 2]), rng.choice([0, 1, 2, 3, 5, 9, 20, -1])))
        else:
            ops.append(("next", rng.choice([0, 0, 1, 3])))
    return dict(seed_byte=rng.randrange(1, 255), ops=ops)


@contract("contracts.c_history.wallet_history", gen=_gen_wallet, props="C20 C14", n_quick=150, n_thorough=3000,
          rule="call sequences of length 1..11 over address(b, i) and next_address(b), valid and invalid branches / indexes")
class WalletLedgerBounded:
    def post_reference_ledger(ops, result):
        trace, recorded = result
        highest = {}
        seen = {}
        ok = True
        for op, t in zip(ops, trace):
            b = op[1]
            valid_branch = b in (0, 1)
            if op[0] == "address":
                i = op[2]
                if not valid_branch or i < 0:
                    ok = ok and t is None
                    continue
            else:
                if not valid_branch:
                    ok = ok and t is None
                    continue
                i = highest.get(b, -1) + 1      # the lowest index above every index handed out
            ok = ok and t is not None and (t[1], t[2]) == (b, i) and t[3] == (b, i)
            if t is None:
                return False
            if t[0] in seen:
                ok = ok and seen[t[0]] == (b, i)
            seen[t[0]] = (b, i)
            highest[b] = max(highest.get(b, -1), i)
        return ok and recorded == len(seen)


def signer_history(kind, key, ops):
    """ops over a Signer object: 'sign' | 'wipe' | 'close'(context exit); returns per-op outcome"""
    from btclib.ecc import dsa, ssa
    s = (dsa.Signer if kind == "dsa" else ssa.Signer)(key)
    out = []
    for op in ops:
        if op == "sign":
            try:
                s.sign_(bytes(32))
                out.append("signed")
            except BTClibValueError:
                out.append("refused")
        elif op == "wipe":
            s.wipe()
            out.append("wiped")
        else:
            s.__exit__(None, None, None)
            out.append("closed")
    return out


def _gen_signer(rng):
    return dict(kind=rng.choice(["dsa", "ssa"]), key=rng.randrange(1, C.n), ops=[rng.choice(["sign", "sign", "wipe", "close"]) for _ in range(rng.randrange(1, 8))])


@contract("contracts.c_history.signer_history", gen=_gen_signer, props="C20 C04", both_arms=True, n_quick=150, n_thorough=3000,
          rule="call sequences of length 1..7 over sign / wipe / close on dsa.Signer and ssa.Signer")
class SignerWipeBounded:
    def post_dead_after_wipe(ops, result):
        dead = False
        ok = True
        for op, r in zip(ops, result):
            if op == "sign":
                ok = ok and r == ("refused" if dead else "signed")
            else:
                dead = True
        return ok
