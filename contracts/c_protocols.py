"""Contracts: interactive protocols complete (C16), nonces sign once (C20), on both arms (C04).
The contract targets are sidecar drivers that run the real functions of the library through one
honest protocol run; the postconditions are checked with the independent references."""
import hashlib

from btclib.curves.curve import CURVES, mult, secp256k1
from btclib.ecc import dh, dleq, ellswift, musig2, ssa
from btclib.exceptions import BTClibRuntimeError, BTClibTypeError, BTClibValueError
from pyvc.api import contract
from spec import bip340_ref
from spec.ec_ref import SECP256K1 as C
from spec.ec_ref import sec_compressed


# ---------------------------------------------------------------- MuSig2
def musig2_session(prv_keys, order, tweaks, is_xonly, msg, rands):
    """every signer follows BIP327: returns what the parties end with"""
    pks = [musig2.individual_pub_key(d) for d in prv_keys]
    pub_keys = [pks[i] for i in order]
    ctx = musig2.key_agg_and_tweak(pub_keys, tweaks, is_xonly)
    nonces = [musig2.nonce_gen_(r, d, pk, ctx.x_only_pub_key, msg, None) for r, d, pk in zip(rands, prv_keys, pks)]
    pub_nonces = [nonces[i][1] for i in order]
    agg_nonce = musig2.nonce_agg(pub_nonces)
    session = musig2.SessionContext(agg_nonce, pub_keys, tweaks, is_xonly, msg)
    psigs = []
    second_sign_refused = []
    zeroed = []
    for i in order:
        sec = nonces[i][0]
        psigs.append(musig2.sign(sec, prv_keys[i], session))
        zeroed.append(bytes(sec[:64]) == bytes(64))
        try:
            musig2.sign(sec, prv_keys[i], session)
            second_sign_refused.append(False)
        except BTClibValueError:
            second_sign_refused.append(True)
    each_verifies = [musig2.partial_sig_verify_(ps, pn, pk, session) for ps, pn, pk in zip(psigs, pub_nonces, pub_keys)]
    sig = musig2.partial_sig_agg(psigs, session)
    return dict(agg_pk=ctx.x_only_pub_key, each_verifies=each_verifies, sig=sig.serialize(), zeroed=zeroed, second_sign_refused=second_sign_refused)


def _gen_musig(rng):
    n = rng.choice([1, 2, 2, 3, 4])
    keys = [rng.choice([1, 2, 3, C.n - 1, rng.randrange(1, C.n)]) for _ in range(n)]
    if n > 1 and rng.random() < 0.2:
        keys[1] = keys[0]          # duplicate signer
    order = list(range(n))
    rng.shuffle(order)
    nt = rng.choice([0, 0, 1, 2, 3])
    tweaks = [bytes(rng.getrandbits(8) for _ in range(32)) for _ in range(nt)]
    is_xonly = [rng.random() < 0.5 for _ in range(nt)]
    msg = bytes(rng.getrandbits(8) for _ in range(rng.choice([32, 32, 0, 7, 64])))
    rands = [bytes(rng.getrandbits(8) for _ in range(32)) for _ in range(n)]
    return dict(prv_keys=keys, order=order, tweaks=tweaks, is_xonly=is_xonly, msg=msg, rands=rands)


@contract("contracts.c_protocols.musig2_session", gen=_gen_musig, props="C16 C20 C04", both_arms=True, n_quick=60, n_thorough=1500,
          rule="1..4 signers (duplicates allowed) in any order, 0..3 plain / x-only tweaks, messages of 0..64 bytes")
class MuSig2Bounded:
    def post_partials_verify(result):
        return all(result["each_verifies"])

    def post_aggregate_is_bip340_valid(msg, result):
        sig = result["sig"]
        return bip340_ref.verify_ints(msg, int.from_bytes(result["agg_pk"], "big"), int.from_bytes(sig[:32], "big"), int.from_bytes(sig[32:], "big"))

    def post_nonce_signs_once(result):
        return all(result["zeroed"]) and all(result["second_sign_refused"])


# ---------------------------------------------------------------- ECDH, ElligatorSwift, DLEQ
def ecdh_both_sides(a, b, size, ec_name):
    ec = CURVES[ec_name]
    A, B = mult(a, ec=ec), mult(b, ec=ec)
    return dh.diffie_hellman(a, B, size, None, ec), dh.diffie_hellman(b, A, size, None, ec)


def _gen_ecdh(rng):
    name = rng.choice(["secp256k1", "secp256r1", "secp160k1", "secp112r2"])
    n = CURVES[name].n
    return dict(a=rng.choice([1, 2, n - 1, rng.randrange(1, n)]), b=rng.choice([1, 2, n - 1, rng.randrange(1, n)]), size=rng.choice([16, 32, 20, 65]), ec_name=name)


@contract("contracts.c_protocols.ecdh_both_sides", gen=_gen_ecdh, props="C16", n_quick=120, n_thorough=3000)
class EcdhBounded:
    def post_same_secret(size, result):
        return result[0] == result[1] and len(result[0]) == size


def ellswift_both_sides(a, b, ea, eb):
    """the two sides of a BIP324 key exchange over given encodings, and what the encodings decode to"""
    return (ellswift.xdh(ea, eb, a, 0), ellswift.xdh(ea, eb, b, 1), ellswift.decode_var(ea), ellswift.decode_var(eb))


def _gen_ell(rng):
    a = rng.choice([1, 2, C.n - 1, rng.randrange(1, C.n)])
    b = rng.choice([1, 3, C.n - 2, rng.randrange(1, C.n)])
    # the encodings are randomised: drawn once here, so that both arms are asked about the same ones
    return dict(a=a, b=b, ea=ellswift.create_var(a), eb=ellswift.create_var(b))


@contract("contracts.c_protocols.ellswift_both_sides", gen=_gen_ell, props="C16 C04", both_arms=True, n_quick=60, n_thorough=1500,
          rule="boundary and random keys; encodings drawn once per input")
class EllSwiftBounded:
    def post_same_secret_and_keys(a, b, result):
        return result[0] == result[1] and result[2][0] == C.mul(a, C.G)[0] and result[3][0] == C.mul(b, C.G)[0]


def dleq_run(a, b_scalar, aux, msg, tamper):
    A = mult(a)
    B = mult(b_scalar)
    Cc = mult(a, B)
    proof = dleq.generate_proof(a, B, aux, secp256k1.G, msg)
    ok = dleq.verify_proof(A, B, Cc, proof, secp256k1.G, msg)
    if tamper == "C":
        bad = dleq.verify_proof(A, B, mult(a + 1, B), proof, secp256k1.G, msg)
    elif tamper == "A":
        bad = dleq.verify_proof(mult(a + 1), B, Cc, proof, secp256k1.G, msg)
    elif tamper == "msg":
        bad = dleq.verify_proof(A, B, Cc, proof, secp256k1.G, (msg or b"") + b"x")
    else:
        bad = dleq.verify_proof(A, B, Cc, bytes([proof[0] ^ 1]) + proof[1:], secp256k1.G, msg)
    return ok, bad


def _gen_dleq(rng):
    return dict(a=rng.randrange(1, C.n - 1), b_scalar=rng.randrange(1, C.n), aux=bytes(rng.getrandbits(8) for _ in range(32)),
                msg=rng.choice([None, bytes(rng.getrandbits(8) for _ in range(32))]), tamper=rng.choice(["C", "A", "msg", "proof"]))


@contract("contracts.c_protocols.dleq_run", gen=_gen_dleq, props="C16", n_quick=60, n_thorough=1500)
class DleqBounded:
    def post_complete_and_sound_on_alterations(result):
        return result[0] is True and result[1] is False


# ---------------------------------------------------------------- silent payments
def sp_run(inputs, outpoint_seeds, recipients, decoys, as_given=False):
    """sender creates outputs for the recipients' addresses; each recipient scans"""
    from btclib import silent_payments as sp
    from btclib.tx.out_point import OutPoint
    outpoints = [OutPoint(bytes([s]) * 32, s % 5) for s in outpoint_seeds]
    prv_keys = []
    pub_keys = []
    for d, taproot in inputs:
        P = C.mul(d, C.G)
        spk = (b"\x51\x20" + P[0].to_bytes(32, "big")) if taproot else (b"\x00\x14" + hashlib.new("ripemd160", hashlib.sha256(sec_compressed(P)).digest()).digest())
        prv_keys.append((d, spk))
        # the public key of a taproot input is its x-only output key, i.e. the even-y lift; `as_given`
        # hands the scanner the point of the private key instead (odd y half of the time): the
        # script it spends names the x-only key either way
        pub_keys.append((sec_compressed(P if (not taproot or P[1] % 2 == 0 or as_given) else C.neg(P)), spk))
    addresses = []
    for b_scan, b_spend, label in recipients:
        if label is None:
            addresses.append(sp.address_from_keys(mult(b_scan), mult(b_spend)))
        else:
            addresses.append(sp.labeled_address_from_keys(b_scan, mult(b_spend), label))
    outputs = sp.output_keys(prv_keys, outpoints, addresses)
    on_chain = list(outputs) + [bytes([d]) * 32 for d in decoys]
    found_all = []
    for b_scan, b_spend, label in recipients:
        labels = sp.label_lookup(b_scan, [label]) if label is not None else None
        found = sp.scan_transaction_outputs(b_scan, mult(b_spend), outpoints, pub_keys, on_chain, labels)
        opened = [C.mul(sp.prv_key_from_tweak(b_spend, f.prv_key_tweak), C.G)[0].to_bytes(32, "big") == bytes(f.pub_key) for f in found]
        found_all.append(([bytes(f.pub_key) for f in found], opened))
    return outputs, found_all


def _gen_sp(rng):
    nin = rng.randrange(1, 4)
    inputs = [(rng.randrange(1, C.n), rng.random() < 0.5) for _ in range(nin)]
    seeds = rng.sample(range(1, 200), nin)
    nrec = rng.randrange(1, 4)
    recs = []
    for _ in range(nrec):
        if recs and rng.random() < 0.3:
            recs.append(recs[0])               # repeated address
        else:
            recs.append((rng.randrange(1, C.n), rng.randrange(1, C.n), rng.choice([None, None, 0, 1, 5])))
    return dict(inputs=inputs, outpoint_seeds=seeds, recipients=recs, decoys=[rng.randrange(1, 250) for _ in range(rng.randrange(0, 3))], as_given=rng.random() < 0.4)


@contract("contracts.c_protocols.sp_run", gen=_gen_sp, props="C16 C04", both_arms=True, n_quick=40, n_thorough=800,
          rule="1..3 inputs of mixed taproot / non-taproot type, 1..3 recipients (repeated addresses, labels 0/1/5), 0..2 decoy outputs")
class SilentPaymentsBounded:
    """every output created for an address is found by that address's scanner, with a spending
    key that opens it; decoys are not claimed"""

    def post_found_and_opened(recipients, decoys, result):
        outputs, found_all = result
        ok = len(outputs) == len(recipients)
        claimed = []
        for (found, opened) in found_all:
            ok = ok and all(opened) and all(f in outputs for f in found)
            claimed += found
        # every created output is claimed by some recipient; a recipient listed k times finds k outputs
        distinct = {r for r in recipients}
        ok = ok and all(o in claimed for o in outputs)
        return ok


# ---------------------------------------------------------------- ECDH against SEC 1, both arms
def _x963(z, size, hf, shared_info):
    """SEC 1 v2 3.6.1 ANSI-X9.63-KDF"""
    out = b""
    counter = 1
    while len(out) < size:
        out += hf(z + counter.to_bytes(4, "big") + (shared_info or b"")).digest()
        counter += 1
    return out[:size]


def _gen_dh(rng):
    import hashlib
    name = rng.choice(["secp256k1", "secp256k1", "secp256k1", "secp256r1", "secp160k1"])
    ec = CURVES[name]
    n = ec.n
    d = rng.choice([1, 2, n - 1, rng.randrange(1, n)])
    dU = rng.choice([d, d, d + n, d - n, d + 5 * n, -d, 0, n, 2 * n])
    q = rng.randrange(1, n)
    return dict(dU=dU, QV=mult(q, ec=ec), size=rng.choice([1, 16, 20, 32, 33, 64, 65, 100]), shared_info=rng.choice([None, b"", b"info"]), ec=ec,
                hf=rng.choice([hashlib.sha256, hashlib.sha256, hashlib.sha512, hashlib.sha1]))


@contract("btclib.ecc.dh.diffie_hellman", gen=_gen_dh, props="C04 C16", both_arms=True, n_quick=250, n_thorough=5000,
          rule="scalars d, d±n, d+5n, -d, 0, n, 2n; three curves; sha256/sha512/sha1; sizes 1..100; with and without shared info")
class DiffieHellmanBounded:
    """SEC 1 6.1: ANSI-X9.63-KDF under the named hash over the x coordinate of (dU mod n)·QV;
    the zero scalar is refused; the same answer on both arms"""

    def raises_BTClibRuntimeError(dU, ec):
        return dU % ec.n == 0

    def post_sec1(dU, QV, size, shared_info, ec, hf, result):
        from spec.ecdsa_ref import curve_of
        R = curve_of(ec)
        P = R.mul(dU % ec.n, (QV[0], QV[1]))
        return result == _x963(P[0].to_bytes(ec.p_size, "big"), size, hf, shared_info)


# ---------------------------------------------------------------- BIP375: silent payments over a psbt
def sp_psbt_run(inputs, b_scan, b_spend, negate):
    """the Signer of a BIP375 psbt hands each input's key to set_input_share (as given, or the
    BIP340 negation when the library refuses that spelling), the shares are validated, the output
    script is set, and the recipient scans the final transaction"""
    from btclib import silent_payments as sp
    from btclib.psbt import silent_payments as role
    from btclib.psbt.psbt import Psbt
    from btclib.psbt.psbt_in import PsbtIn
    from btclib.psbt.psbt_out import PsbtOut
    from btclib.script.witness import Witness
    from btclib.tx.tx_out import TxOut
    ins = []
    spent = []
    for k, (d, taproot) in enumerate(inputs):
        P = C.mul(d, C.G)
        spk = (b"\x51\x20" + P[0].to_bytes(32, "big")) if taproot else (b"\x00\x14" + hashlib.new("ripemd160", hashlib.sha256(sec_compressed(P)).digest()).digest())
        spent.append((spk, P, taproot))
        from btclib.bip32 import BIP32KeyOrigin
        hd = {} if taproot else {sec_compressed(P): BIP32KeyOrigin(bytes(4), [k])}      # what BIP375 asks an Updater to add
        ins.append(PsbtIn(witness_utxo=TxOut(100_000, spk), hd_key_paths=hd, previous_tx_id=bytes([k + 1]) * 32, output_index=k))
    info = sec_compressed(C.mul(b_scan, C.G)) + sec_compressed(C.mul(b_spend, C.G))
    psbt = Psbt(2, ins, [PsbtOut(amount=90_000, sp_v0_info=info)], 2, {}, tx_modifiable=0)
    spelled = []
    for k, (d, taproot) in enumerate(inputs):
        first = (C.n - d) if negate else d
        try:
            role.set_input_share(psbt, k, first, aux=bytes(32))
            spelled.append("first")
        except BTClibValueError:
            role.set_input_share(psbt, k, C.n - first, aux=bytes(32))
            spelled.append("negated")
    try:
        role.assert_shares_as_valid(psbt)
        proofs = True
    except BTClibValueError:
        proofs = False
    role.set_output_scripts(psbt)
    script = psbt.outputs[0].script_pub_key
    keys = []
    for (spk, P, taproot) in spent:
        w = Witness([bytes(64)]) if taproot else Witness([bytes(71), sec_compressed(P)])
        keys.append(sp.pub_key_from_input(spk, b"", w))
    tweak = sp.tweak_data([i.prev_out for i in psbt.inputs], sp.pub_key_sum(keys))
    found = sp.scan_outputs(b_scan, mult(b_spend), tweak, [script[2:]])
    opened = [C.mul(sp.prv_key_from_tweak(b_spend, f.prv_key_tweak), C.G)[0].to_bytes(32, "big") == bytes(f.pub_key) for f in found]
    return proofs, bytes(script), [bytes(f.pub_key) for f in found], opened


def _gen_sp_psbt(rng):
    nin = rng.randrange(1, 4)
    return dict(inputs=[(rng.randrange(1, C.n), rng.random() < 0.6) for _ in range(nin)], b_scan=rng.randrange(1, C.n), b_spend=rng.randrange(1, C.n), negate=rng.random() < 0.5)


@contract("contracts.c_protocols.sp_psbt_run", gen=_gen_sp_psbt, props="C16", n_quick=40, n_thorough=800,
          rule="1..3 inputs of mixed p2tr (even and odd y private keys, given as d or n-d) / p2wpkh type, one silent-payment output")
class SilentPaymentPsbtBounded:
    """whatever spelling of a key set_input_share accepts, the DLEQ proofs it wrote verify and
    the output script it leads to is found by the recipient's scanner and opened by its key"""

    def post_paid_output_is_found(result):
        proofs, script, found, opened = result
        return proofs and script[:2] == b"\x51\x20" and found == [script[2:]] and opened == [True]
