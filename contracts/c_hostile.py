"""Contracts: hostile input is refused with library exceptions only (C19) -- bounded stand-in.

One driver, `hostile(entry, payload)`: hands the payload to a public parse / decode / from_dict
entry point, and -- when the parser accepted it -- hands the object to every consumer registered
for its type (serialisation, ids, sizes, sighash, engine, the block's coinbase readers).  The
answer is "ok", "refused" (one of the library's own exceptions) or "escape:<Exception>".  A
stream parser is also asked to leave the tail of a caller's stream unread.

The generator is structure-aware: it mutates valid encodings (the repository's vendored
vectors plus objects built here) field-deep: every byte position set to CompactSize / length
boundary values, truncation, slice duplication and deletion, digit runs grown past the
interpreter's int() limit, nesting up to the recursion limit, non-ASCII text, and JSON values
of the wrong type at every key.
"""
import io
import json
import os

from btclib import b32, b58, base58, bech32, bip322, descriptors, var_bytes, var_int
from btclib.bip32.bip32 import BIP32KeyData
from btclib.bip32.key_origin import BIP32KeyOrigin
from btclib.block.block import Block
from btclib.block.block_header import BlockHeader
from btclib.curves.sec_point import point_from_octets
from btclib.descriptors import miniscript
from btclib.ecc import bms, dsa, ecies, ssa
from btclib.exceptions import BTClibException
from btclib.p2p.address import Addr, NetworkAddress, TimestampedNetworkAddress
from btclib.p2p.addrv2 import AddrV2, NetworkAddressV2, SendAddrV2
from btclib.p2p.block_filters import BlockFilterType, CFCheckpt, CFHeaders, CFilter, GetCFCheckpt, GetCFHeaders, GetCFilters
from btclib.p2p.compact_blocks import BlockTxn, CmpctBlock, GetBlockTxn, PrefilledTransaction, SendCmpct
from btclib.p2p.data import BlockPayload, TxPayload
from btclib.p2p.handshake import Verack, Version
from btclib.p2p.inventory import GetBlocks, GetData, GetHeaders, Headers, Inv, Inventory, InventoryType, NotFound
from btclib.p2p.keepalive import Ping, Pong
from btclib.p2p.message import Message
from btclib.p2p.negotiation import FeeFilter, GetAddr, Mempool, SendHeaders, WtxidRelay
from btclib.psbt import psbt_utils
from btclib.psbt.psbt import Psbt
from btclib.psbt.psbt_in import PsbtIn
from btclib.psbt.psbt_out import PsbtOut
from btclib.script import script, sig_hash, taproot
from btclib.script.engine import verify_input
from btclib.script.witness import Witness
from btclib.tx.out_point import OutPoint
from btclib.tx.tx import Tx
from btclib.tx.tx_in import TxIn
from btclib.tx.tx_out import TxOut
from pyvc import REPO
from pyvc.api import contract

BINARY = {
    "var_int.parse": var_int.parse, "var_bytes.parse": var_bytes.parse, "script.parse": script.parse, "taproot.parse": taproot.parse,
    "Witness.parse": Witness.parse, "OutPoint.parse": OutPoint.parse, "TxIn.parse": TxIn.parse, "TxOut.parse": TxOut.parse, "Tx.parse": Tx.parse,
    "BlockHeader.parse": BlockHeader.parse, "Block.parse": Block.parse, "Block.parse(unchecked)": lambda b: Block.parse(b, check_validity=False),
    "Tx.parse(unchecked)": lambda b: Tx.parse(b, check_validity=False),
    "Psbt.parse": Psbt.parse, "PsbtIn.parse": PsbtIn.parse, "PsbtOut.parse": PsbtOut.parse,
    "psbt_utils.deserialize_map": psbt_utils.deserialize_map, "psbt_utils.parse_leaf_script": psbt_utils.parse_leaf_script,
    "psbt_utils.parse_taproot_tree": psbt_utils.parse_taproot_tree, "psbt_utils.parse_taproot_bip32": psbt_utils.parse_taproot_bip32,
    "Message.parse": Message.parse, "BIP32KeyData.parse": BIP32KeyData.parse, "BIP32KeyOrigin.parse": BIP32KeyOrigin.parse,
    "dsa.Sig.parse": dsa.Sig.parse, "dsa.Sig.parse(lax)": lambda b: dsa.Sig.parse(b, strict=False), "ssa.Sig.parse": ssa.Sig.parse, "bms.Sig.parse": bms.Sig.parse, "ecies.Envelope.parse": ecies.Envelope.parse,
    "point_from_octets": point_from_octets,
    # the p2p payloads
    "NetworkAddress.parse": NetworkAddress.parse, "TimestampedNetworkAddress.parse": TimestampedNetworkAddress.parse, "Addr.parse": Addr.parse,
    "NetworkAddressV2.parse": NetworkAddressV2.parse, "AddrV2.parse": AddrV2.parse, "SendAddrV2.parse": SendAddrV2.parse, "GetAddr.parse": GetAddr.parse,
    "Mempool.parse": Mempool.parse, "SendHeaders.parse": SendHeaders.parse, "WtxidRelay.parse": WtxidRelay.parse, "FeeFilter.parse": FeeFilter.parse,
    "Version.parse": Version.parse, "Verack.parse": Verack.parse, "Ping.parse": Ping.parse, "Pong.parse": Pong.parse, "Inventory.parse": Inventory.parse,
    "Inv.parse": Inv.parse, "GetData.parse": GetData.parse, "NotFound.parse": NotFound.parse, "GetBlocks.parse": GetBlocks.parse, "GetHeaders.parse": GetHeaders.parse,
    "Headers.parse": Headers.parse, "GetCFilters.parse": GetCFilters.parse, "CFilter.parse": CFilter.parse, "GetCFHeaders.parse": GetCFHeaders.parse,
    "CFHeaders.parse": CFHeaders.parse, "GetCFCheckpt.parse": GetCFCheckpt.parse, "CFCheckpt.parse": CFCheckpt.parse, "SendCmpct.parse": SendCmpct.parse,
    "CmpctBlock.parse": CmpctBlock.parse, "PrefilledTransaction.parse": PrefilledTransaction.parse, "GetBlockTxn.parse": GetBlockTxn.parse, "BlockTxn.parse": BlockTxn.parse,
    "TxPayload.parse": TxPayload.parse, "BlockPayload.parse": BlockPayload.parse,
}
TEXT = {
    "base58.decode": base58.decode, "bech32.decode": bech32.decode, "b32.witness_from_address": b32.witness_from_address,
    "b58.h160_from_address": b58.h160_from_address, "BIP32KeyData.b58decode": BIP32KeyData.b58decode, "bms.Sig.b64decode": bms.Sig.b64decode,
    "bip322.Sig.b64decode": bip322.Sig.b64decode, "Psbt.b64decode": Psbt.b64decode, "descriptors.checksum": descriptors.checksum,
    "descriptors.parse": descriptors.parse, "miniscript.parse": miniscript.parse,
    "miniscript.parse(tapscript)": lambda s: miniscript.parse(s, miniscript.TAPSCRIPT),
}
JSONS = {
    "Tx.from_dict": Tx.from_dict, "TxIn.from_dict": TxIn.from_dict, "TxOut.from_dict": TxOut.from_dict, "OutPoint.from_dict": OutPoint.from_dict,
    "Witness.from_dict": Witness.from_dict, "BlockHeader.from_dict": BlockHeader.from_dict, "Block.from_dict": Block.from_dict,
    "Psbt.from_dict": Psbt.from_dict, "PsbtIn.from_dict": PsbtIn.from_dict, "PsbtOut.from_dict": PsbtOut.from_dict,
    "BIP32KeyOrigin.from_dict": BIP32KeyOrigin.from_dict,
}
STREAMING = {"var_int.parse", "var_bytes.parse", "Witness.parse", "OutPoint.parse", "TxIn.parse", "TxOut.parse", "Tx.parse", "BlockHeader.parse",
             "Block.parse", "PsbtIn.parse", "PsbtOut.parse", "BIP32KeyData.parse", "dsa.Sig.parse(lax)", "ssa.Sig.parse"}
# dsa.Sig.parse(strict=True) is documented as the one parser holding a stream to the whole-object
# rule (Core's IsValidSignatureEncoding size equation): it needs the byte after the sequence


# ---- consumers of accepted objects ----------------------------------------------------------
def _quiet(f):
    """a consumer may refuse an object parsed with check_validity=False: with the library's
    exceptions"""
    try:
        return f()
    except BTClibException:
        return None


def _tx_consumers(tx):
    _quiet(lambda: tx.serialize(include_witness=True, check_validity=False))
    _quiet(lambda: tx.serialize(include_witness=False, check_validity=False))
    _quiet(lambda: (tx.id, tx.hash, tx.size, tx.weight, tx.vsize, tx.is_segwit, tx.is_coinbase))
    _quiet(lambda: tx.to_dict(check_validity=False))
    prevouts = [TxOut(10**6, b"\x51\x20" + bytes(range(1, 33)), check_validity=False) for _ in tx.vin]
    for i in range(min(len(tx.vin), 2)):
        for ht in (0, 1, 3, 0x83):
            try:
                sig_hash.from_tx(prevouts, tx, i, ht)
            except BTClibException:
                pass
        try:
            verify_input(prevouts, tx, i)
        except BTClibException:
            pass


def _block_consumers(b):
    _quiet(lambda: b.serialize(check_validity=False))
    _quiet(lambda: (b.size, b.weight, b.is_segwit))
    _quiet(lambda: b.to_dict(check_validity=False))
    for name in ("witness_commitment", "height"):
        try:
            getattr(b, name)
        except BTClibException:
            pass
    for name in ("assert_valid", "assert_valid_merkle_root", "assert_valid_witness_commitment", "assert_valid_length", "assert_valid_weight"):
        try:
            getattr(b, name)()
        except BTClibException:
            pass


def _psbt_consumers(p):
    try:
        p.serialize(check_validity=False)
        p.b64encode(check_validity=False)
        p.to_dict(check_validity=False)
    except BTClibException:
        pass
    try:
        p.assert_valid()
    except BTClibException:
        pass


def _generic(o):
    for name, kw in (("serialize", dict(check_validity=False)), ("to_dict", dict(check_validity=False))):
        f = getattr(o, name, None)
        if f is not None:
            try:
                f(**kw)
            except BTClibException:
                pass
            except TypeError:
                f()


def _consume(obj):
    if isinstance(obj, Tx):
        _tx_consumers(obj)
    elif isinstance(obj, Block):
        _block_consumers(obj)
    elif isinstance(obj, Psbt):
        _psbt_consumers(obj)
    elif isinstance(obj, descriptors.Descriptor):
        try:
            obj.script_pub_key() if not obj.is_ranged else obj.script_pub_key(0)
        except BTClibException:
            pass
        str(obj)
    else:
        _generic(obj)


def hostile(entry, payload):
    kind, name = entry.split("|", 1)
    fn = {"bin": BINARY, "txt": TEXT, "json": JSONS, "stream": BINARY}[kind][name]
    try:
        if kind == "json":
            arg = json.loads(payload)
        elif kind == "stream":
            arg = io.BytesIO(payload)
        else:
            arg = payload
        try:
            obj = fn(arg)
        except BTClibException:
            return "refused"
        _consume(obj)
        return "ok"
    except RecursionError:
        return "escape:RecursionError"
    except Exception as e:  # noqa: BLE001  the outcome under test
        return f"escape:{type(e).__name__}: {str(e)[:120]}"


def stream_tail(entry, payload, tail):
    """position after parsing a stream holding payload + tail, when the parser accepts payload
    alone from a stream: (accepted, position, position when parsing payload alone)"""
    fn = BINARY[entry]
    first = io.BytesIO(payload)
    try:
        fn(first)
    except BTClibException:
        return (False, 0, 0)
    s = io.BytesIO(payload + tail)
    try:
        fn(s)
    except BTClibException:
        return (True, -1, first.tell())
    return (True, s.tell(), first.tell())


# ---- corpus -------------------------------------------------------------------------------
_CORPUS = {}


def _t(*parts):
    return os.path.join(REPO, "tests", *parts)


def corpus():
    if _CORPUS:
        return _CORPUS
    C = _CORPUS
    blocks = []
    for n in ("block_1.bin", "block_170.bin"):
        with open(_t("block", "_data", n), "rb") as f:
            blocks.append(f.read())
    with open(_t("block", "_data", "block_481824.bin"), "rb") as f:
        big = f.read()
    segwit_block = Block.parse(big, check_validity=False)
    small_segwit = Block(segwit_block.header, list(segwit_block.transactions[:3]) + [t for t in segwit_block.transactions[3:200] if t.is_segwit][:2], check_validity=False)
    blocks.append(small_segwit.serialize(check_validity=False))
    C["Block.parse"] = C["Block.parse(unchecked)"] = blocks
    C["BlockHeader.parse"] = [b[:80] for b in blocks]
    txs = [t.serialize(include_witness=True, check_validity=False) for t in small_segwit.transactions] + [Block.parse(blocks[1]).transactions[1].serialize(include_witness=True)]
    C["Tx.parse"] = C["Tx.parse(unchecked)"] = txs
    tx_objs = [Tx.parse(t, check_validity=False) for t in txs]
    C["TxIn.parse"] = [i.serialize(check_validity=False) for t in tx_objs for i in t.vin][:6]
    C["TxOut.parse"] = [o.serialize(check_validity=False) for t in tx_objs for o in t.vout][:6]
    C["OutPoint.parse"] = [i.prev_out.serialize(check_validity=False) for t in tx_objs for i in t.vin][:3]
    C["Witness.parse"] = [i.script_witness.serialize(check_validity=False) for t in tx_objs for i in t.vin if i.script_witness.stack][:4] or [b"\x00"]
    C["script.parse"] = C["taproot.parse"] = [o.script_pub_key.script for t in tx_objs for o in t.vout][:6] + [i.script_sig for t in tx_objs for i in t.vin][:4]
    C["var_int.parse"] = [b"\x01", b"\xfd\x00\x01", b"\xfe\x00\x00\x01\x00", b"\xff" + bytes(4) + b"\x01" + bytes(3)]
    C["var_bytes.parse"] = [b"\x03abc", b"\xfd\x00\x01" + bytes(256)]
    psbts = []
    for f in ("bip174", "bip370", "bip371", "bip373"):
        with open(_t("psbt", "_data", f"{f}_test_vectors.json"), encoding="ascii") as fh:
            d = json.load(fh)
        psbts += [v["encoded psbt"] for v in d["valid psbts"]]
    C["Psbt.b64decode"] = psbts
    pobjs = []
    for s in psbts:
        try:
            pobjs.append(Psbt.b64decode(s))
        except BTClibException:
            pass
    C["Psbt.parse"] = [p.serialize() for p in pobjs]
    C["PsbtIn.parse"] = [i.serialize() for p in pobjs for i in p.inputs][:20]
    C["PsbtOut.parse"] = [o.serialize() for p in pobjs for o in p.outputs][:20]
    C["psbt_utils.deserialize_map"] = C["PsbtIn.parse"][:8]
    # p2p payloads: captured messages (the ones tests/p2p replays) and objects built by the library's own constructors
    hdr = blocks[0][:80]
    bhash = hdr[4:36][::-1]
    block1 = Block.parse(blocks[0])
    C["Version.parse"] = [bytes.fromhex("62ea0000010000000000000011b2d05000000000010000000000000000000000000000000000ffff000000000000"
                                        "010000000000000000000000000000000000ffff0000000000003b2eb35d8ce617650f2f5361746f7368693a302e372e322fc03e0300")]
    C["Addr.parse"] = [bytes.fromhex("01e215104d010000000000000000000000000000000000ffff0a000001208d")]
    C["TimestampedNetworkAddress.parse"] = [C["Addr.parse"][0][1:]]
    C["NetworkAddress.parse"] = [C["Addr.parse"][0][5:]]
    C["AddrV2.parse"] = [bytes.fromhex("0361bc6649000210000000000000000000000000000000010000796276830102100000000000000000000000000000000100f1"
                                       "fffffffffd4804021000000000000000000000000000000001f1f2")]
    C["NetworkAddressV2.parse"] = [C["AddrV2.parse"][0][1:26]]
    C["Inv.parse"] = C["GetData.parse"] = C["NotFound.parse"] = [Inv([Inventory(InventoryType.MSG_BLOCK, bhash)]).serialize()]
    C["Inventory.parse"] = [Inventory(InventoryType.MSG_BLOCK, bhash).serialize()]
    C["Headers.parse"] = [b"\x01" + hdr + b"\x00", b"\x02" + hdr + b"\x00" + hdr + b"\x00"]
    C["GetHeaders.parse"] = C["GetBlocks.parse"] = [(70016).to_bytes(4, "little") + b"\x01" + bhash[::-1] + bytes(32)]
    C["CFilter.parse"] = [CFilter(BlockFilterType.BASIC, bhash, b"\x01\x02\x03").serialize()]
    C["CFHeaders.parse"] = [CFHeaders(BlockFilterType.BASIC, bhash, bytes(32), [bhash]).serialize()]
    C["CFCheckpt.parse"] = [b"\x00" + bhash[::-1] + b"\x01" + bytes(32)]
    C["GetCFilters.parse"] = C["GetCFHeaders.parse"] = [b"\x00" + (5).to_bytes(4, "little") + bhash[::-1]]
    C["GetCFCheckpt.parse"] = [b"\x00" + bhash[::-1]]
    C["CmpctBlock.parse"] = [CmpctBlock(BlockHeader.parse(hdr), 1, [0x010203040506], [PrefilledTransaction(1, block1.transactions[0])]).serialize()]
    C["PrefilledTransaction.parse"] = [PrefilledTransaction(1, block1.transactions[0]).serialize()]
    C["GetBlockTxn.parse"] = [GetBlockTxn(bhash, [0, 2, 5]).serialize()]
    C["BlockTxn.parse"] = [bhash[::-1] + b"\x01" + txs[0]]
    C["TxPayload.parse"] = txs[:2]
    C["BlockPayload.parse"] = blocks[:2]
    C["Ping.parse"] = C["Pong.parse"] = [bytes(range(8))]
    C["FeeFilter.parse"] = [(1000).to_bytes(8, "little")]
    C["SendCmpct.parse"] = [b"\x01" + (2).to_bytes(8, "little")]
    C["Message.parse"] = [Message("f9beb4d9", "ping", bytes(8)).serialize(), Message("f9beb4d9", "verack", b"").serialize(), Message("f9beb4d9", "tx", txs[0]).serialize()]
    with open(_t("_data", "descriptor_checksums.json"), encoding="ascii") as fh:
        descs = [v["desc"] + "#" + v["checksum"] for v in json.load(fh)]
    C["descriptors.parse"] = descs
    C["descriptors.checksum"] = [d.split("#")[0] for d in descs[:10]]
    with open(_t("_data", "miniscript_fixed_tests.json"), encoding="ascii") as fh:
        ms = [v["miniscript"] for v in json.load(fh) if v["valid"]]
    C["miniscript.parse"] = C["miniscript.parse(tapscript)"] = ms[:80]
    xprv = "xprv9s21ZrQH143K3QTDL4LXw2F7HEK3wJUD2nW2nRk4stbPy6cq3jPPqjiChkVvvNKmPGJxWUtg6LnF5kejMRNNU3TGtRBeJgk33yuGBxrMPHi"
    xpub = "xpub661MyMwAqRbcFtXgS5sYJABqqG9YLmC4Q1Rdap9gSE8NqtwybGhePY2gZ29ESFjqJoCu1Rupje8YtGqsefD265TMg7usUDFdp6W1EGMcet8"
    C["BIP32KeyData.b58decode"] = [xprv, xpub]
    C["BIP32KeyData.parse"] = [BIP32KeyData.b58decode(xprv).serialize(), BIP32KeyData.b58decode(xpub).serialize()]
    C["BIP32KeyOrigin.parse"] = [bytes.fromhex("d34db33f") + (0x8000002C).to_bytes(4, "little") + (1).to_bytes(4, "little")]
    C["base58.decode"] = [xprv, "1BvBMSEYstWetqTFn5Au4m4GFg7xJaNVN2", "5Kb8kLf9zgWQnogidDA76MzPL6TsZZY36hWXMssSzNydYXYB9KF"]
    C["b58.h160_from_address"] = ["1BvBMSEYstWetqTFn5Au4m4GFg7xJaNVN2", "3J98t1WpEZ73CNmQviecrnyiWrnqRhWNLy"]
    C["bech32.decode"] = C["b32.witness_from_address"] = ["bc1qw508d6qejxtdg4y5r3zarvary0c5xw7kv8f3t4", "bc1p0xlxvlhemja6c4dqv22uapctqupfhlxm9h8z3k2e72q4k9hcz7vqzk5jj0",
                                                          "tb1qrp33g0q5c5txsp9arysrx4k6zdkfs4nce4xj0gdcccefvpysxf3q0sl5k7"]
    C["dsa.Sig.parse"] = C["dsa.Sig.parse(lax)"] = [bytes.fromhex("30440220421fbbedf2ee096d6289b99973509809d5e09589040d5e0d453133dd11b2f78a02205686dbdb57e0c44e49421e9400dd4e931f1655332e8d078260c9295ba959e05d")]
    from spec import bip340_ref
    C["ssa.Sig.parse"] = [bip340_ref.sign(bytes(32), 7, bytes(32))]
    C["point_from_octets"] = [bytes.fromhex("0279be667ef9dcbbac55a06295ce870b07029bfcdb2dce28d959f2815b16f81798")]
    # JSON shapes, from the objects' own to_dict
    J = C.setdefault("json", {})
    J["Tx.from_dict"] = [json.dumps(t.to_dict(check_validity=False)) for t in tx_objs[:4]]
    J["TxIn.from_dict"] = [json.dumps(i.to_dict(check_validity=False)) for t in tx_objs[:3] for i in t.vin][:4]
    J["TxOut.from_dict"] = [json.dumps(o.to_dict(check_validity=False)) for t in tx_objs[:3] for o in t.vout][:4]
    J["OutPoint.from_dict"] = [json.dumps(i.prev_out.to_dict(check_validity=False)) for t in tx_objs[:2] for i in t.vin][:2]
    J["Witness.from_dict"] = [json.dumps(i.script_witness.to_dict(check_validity=False)) for t in tx_objs for i in t.vin if i.script_witness.stack][:2]
    bobjs = [Block.parse(b, check_validity=False) for b in blocks]
    J["Block.from_dict"] = [json.dumps(b.to_dict(check_validity=False)) for b in bobjs]
    J["BlockHeader.from_dict"] = [json.dumps(b.header.to_dict(check_validity=False)) for b in bobjs]
    J["Psbt.from_dict"] = [json.dumps(p.to_dict(check_validity=False)) for p in pobjs]
    J["PsbtIn.from_dict"] = [json.dumps(i.to_dict(check_validity=False)) for p in pobjs for i in p.inputs][:30]
    J["PsbtOut.from_dict"] = [json.dumps(o.to_dict(check_validity=False)) for p in pobjs for o in p.outputs][:30]
    return C


# ---- mutations ----------------------------------------------------------------------------
_BOUNDARY_BYTES = [0x00, 0x01, 0x4B, 0x4C, 0x4D, 0x4E, 0x50, 0x7F, 0x80, 0xFC, 0xFD, 0xFE, 0xFF]
_PREFIXES = [b"\xfd\x00\x00", b"\xfd\xfc\x00", b"\xfd\xff\xff", b"\xfe\xff\xff\xff\xff", b"\xfe\x00\x00\x00\x01", b"\xff" + b"\xff" * 8, b"\xff" + bytes(7) + b"\x80",
             b"\xff\xff\xff\xff\x7f\x00\x00\x00\x00", b"\x4e\xff\xff\xff\xff", b"\x4d\xff\xff", b"\x4c\xff"]


def mutate_bytes(rng, s):
    for _ in range(rng.choice([1, 1, 1, 2, 3])):
        c = rng.random()
        n = len(s)
        i = rng.randrange(0, n + 1)
        if c < 0.3 and n:
            i = min(i, n - 1)
            s = s[:i] + bytes([rng.choice(_BOUNDARY_BYTES)]) + s[i + 1:]
        elif c < 0.4 and n:
            i = min(i, n - 1)
            s = s[:i] + bytes([rng.randrange(256)]) + s[i + 1:]
        elif c < 0.55:
            s = s[:i] + rng.choice(_PREFIXES) + s[min(n, i + 1):]
        elif c < 0.68:
            s = s[:i]
        elif c < 0.76:
            s = s + bytes(rng.getrandbits(8) for _ in range(rng.randrange(1, 40)))
        elif c < 0.84:
            j = min(n, i + rng.randrange(1, 40))
            s = s[:j] + s[i:j] * rng.choice([1, 2, 50]) + s[j:]
        elif c < 0.92:
            j = min(n, i + rng.randrange(1, 40))
            s = s[:i] + s[j:]
        else:
            s = s[:i] + bytes(rng.choice([1, 4, 32, 600])) + s[i:]
    return s


def mutate_text(rng, s):
    import re
    for _ in range(rng.choice([1, 1, 2])):
        c = rng.random()
        n = len(s)
        i = rng.randrange(0, n + 1)
        if c < 0.15:
            runs = list(re.finditer(r"[0-9]+", s))
            if runs:
                m = rng.choice(runs)
                s = s[:m.start()] + rng.choice(["1" * 5000, "0" * 4400 + "1", "9" * 20, "4294967296", "2147483648", "2147483647", "0", "00", "-1", "+1", "１"]) + s[m.end():]
        elif c < 0.25:
            depth = rng.choice([40, 130, 400, 1500, 5000])
            w = rng.choice(["wsh(", "sh(", "tr(", "{", "and_v(", "c:", "v:", "a:", "thresh(1,", "(", "["])
            s = s[:i] + w * depth + s[i:]
        elif c < 0.33:
            depth = rng.choice([127, 128, 129, 1500])
            key = "a34b99f22c790c4e36b2b3c2c35a36db06226e41c692fc82b8b56ac1c540c5bd"
            leaf = "pk(" + key + ")"
            if rng.random() < 0.5:
                s = "tr(" + key + "," + ("{" + leaf + ",") * depth + leaf + "}" * depth + ")"      # right spine
            else:
                s = "tr(" + key + "," + "{" * depth + leaf + ("," + leaf + "}") * depth + ")"      # left spine
        elif c < 0.45:
            s = s[:i] + rng.choice(["é", "ß", " ", "\x00", "１", "İ", "퟿", "#", "'", "h", "/", "*", "<0;1>", ",", ")", "(", "=", "\n", " "]) + s[i:]
        elif c < 0.6 and n:
            i = min(i, n - 1)
            s = s[:i] + rng.choice("0123456789abcdefghijklmnopqrstuvwxyzABCDEFGHIJKLMNOPQRSTUVWXYZ+/=#()[]{},;<>*'") + s[i + 1:]
        elif c < 0.72:
            s = s[:i]
        elif c < 0.8:
            j = min(n, i + rng.randrange(1, 30))
            s = s[:j] + s[i:j] * rng.choice([1, 3, 200]) + s[j:]
        elif c < 0.9:
            j = min(n, i + rng.randrange(1, 30))
            s = s[:i] + s[j:]
        else:
            s = s.upper() if rng.random() < 0.5 else s.swapcase()
    return s


_JSON_JUNK = [None, True, False, 0, -1, 1, 2**31, 2**32, 2**63, 2**64, 10**30, -2**63, 1.5, "", "00", "zz", "ff" * 40, "é", [], [[]], [None], [1], {}, {"a": 1}, "1" * 5000]


def _json_paths(v, path=()):
    yield path
    if isinstance(v, dict):
        for k in v:
            yield from _json_paths(v[k], path + (k,))
    elif isinstance(v, list):
        for k in range(len(v)):
            yield from _json_paths(v[k], path + (k,))


def _json_set(v, path, f):
    if not path:
        return f(v)
    k = path[0]
    if isinstance(v, dict):
        v = dict(v)
        r = _json_set(v[k], path[1:], f)
        if r is _DROP and len(path) == 1:
            del v[k]
        else:
            v[k] = r
        return v
    v = list(v)
    r = _json_set(v[k], path[1:], f)
    if r is _DROP and len(path) == 1:
        del v[k]
    else:
        v[k] = r
    return v


_DROP = object()


def mutate_json(rng, text):
    v = json.loads(text)
    for _ in range(rng.choice([1, 1, 2])):
        paths = list(_json_paths(v))
        p = rng.choice(paths)
        c = rng.random()
        if c < 0.25 and p:
            v = _json_set(v, p, lambda old: _DROP)
        elif c < 0.7:
            v = _json_set(v, p, lambda old: rng.choice(_JSON_JUNK))
        elif c < 0.8:
            def grow(old):
                if isinstance(old, str):
                    return mutate_text(rng, old)
                if isinstance(old, int) and not isinstance(old, bool):
                    return rng.choice([old + 1, -old, old * 2**32, 2**64 + old])
                if isinstance(old, list):
                    return old + old[:1] * rng.choice([1, 3])
                if isinstance(old, dict):
                    d = dict(old)
                    d[rng.choice(["extra", "", "unknown"])] = rng.choice(_JSON_JUNK)
                    return d
                return rng.choice(_JSON_JUNK)
            v = _json_set(v, p, grow)
        elif c < 0.9:
            depth = rng.choice([50, 900])
            def nest(old):
                r = old
                for _ in range(depth):
                    r = [r] if rng.random() < 0.5 else {"a": r}
                return r
            v = _json_set(v, p, nest)
        else:
            v = _json_set(v, p, lambda old: [old])
    try:
        return json.dumps(v)
    except RecursionError:
        return text


def _gen_hostile(rng):
    C = corpus()
    c = rng.random()
    if c < 0.5:
        name = rng.choice([k for k in BINARY if C.get(k)] if rng.random() < 0.85 else list(BINARY))
        sample = rng.choice(C.get(name) or [bytes(rng.getrandbits(8) for _ in range(rng.randrange(0, 64)))])
        data = mutate_bytes(rng, sample) if rng.random() < 0.97 else sample
        kind = "stream" if name in STREAMING and rng.random() < 0.3 else "bin"
        return dict(entry=f"{kind}|{name}", payload=data)
    if c < 0.75:
        name = rng.choice([k for k in TEXT if C.get(k)] if rng.random() < 0.9 else list(TEXT))
        sample = rng.choice(C.get(name) or ["abc"])
        return dict(entry=f"txt|{name}", payload=mutate_text(rng, sample))
    J = C["json"]
    name = rng.choice([k for k in JSONS if J.get(k)])
    return dict(entry=f"json|{name}", payload=mutate_json(rng, rng.choice(J[name])))


@contract("contracts.c_hostile.hostile", gen=_gen_hostile, props="C19", n_quick=4000, n_thorough=150000,
          rule="structure-aware mutations (1..3 per input: any byte to a CompactSize/push-opcode boundary value, CompactSize prefixes spliced in, truncation, extension, slice duplication x50, deletion, zero runs; text: digit runs to 5000 digits, nesting 40..5000 deep, right-nested taproot trees, non-ASCII, case; JSON: every path dropped / retyped to 25 junk values / nested 900 deep) of the repository's vendored valid vectors (blocks 1, 170, a 5-tx cut of 481824; 44 BIP174/370/371/373 PSBTs; descriptor checksum and miniscript vectors; extended keys, addresses) x 64 binary (35 of them p2p payloads), 12 text and 11 from_dict entry points; accepted objects handed to serialize / ids / sizes / to_dict / sighash / engine / block coinbase readers")
class HostileBounded:
    """returns an object every consumer takes, or raises one of the library's exceptions"""

    def post_no_escape(result):
        return not result.startswith("escape")


def _gen_tail(rng):
    C = corpus()
    name = rng.choice(sorted(k for k in STREAMING if C.get(k)))
    sample = rng.choice(C[name])
    tail = bytes(rng.getrandbits(8) for _ in range(rng.randrange(1, 20))) if rng.random() < 0.7 else sample
    return dict(entry=name, payload=sample if rng.random() < 0.7 else mutate_bytes(rng, sample), tail=tail)


@contract("contracts.c_hostile.stream_tail", gen=_gen_tail, props="C19", n_quick=600, n_thorough=20000,
          rule="14 stream parsers x vendored valid encodings (30% mutated) followed by 1..19 random bytes or a second copy")
class StreamTailBounded:
    """a parser that accepts an encoding from a stream accepts it with anything behind it and
    leaves the stream positioned at the end of the encoding"""

    def post_reads_no_more(result):
        return (not result[0]) or result[1] == result[2]
