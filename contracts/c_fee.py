"""Contracts: fees, amounts, funding (C18)."""
from fractions import Fraction

from btclib import fee as fee_mod
from btclib.amount import valid_sats_amount
from btclib.exceptions import BTClibTypeError, BTClibValueError
from btclib.fee import FeeRate
from pyvc.api import assume, contract, lemma, shape


@shape("btclib.fee.FeeRate", fields=dict(sats_per_kvbyte="int"))
class FeeRateShape:
    def inv(self):
        return self.sats_per_kvbyte >= 0

    def build(sats_per_kvbyte):
        return FeeRate(sats_per_kvbyte=sats_per_kvbyte)


@contract("btclib.fee.fee_from_vsize", types=dict(vsize="int", fee_rate="obj:FeeRate"), props="C18 C19")
class FeeFromVsize:
    """fee = ceil(rate x vsize): the least integer f with 1000 f >= rate x vsize"""

    def raises_BTClibValueError(vsize):
        return vsize < 0

    def post_ceiling(vsize, fee_rate, result):
        p = fee_rate.sats_per_kvbyte * vsize
        return 1000 * result >= p and 1000 * (result - 1) < p


@contract("btclib.fee.package_fee", types=dict(vsize="int", fee_rate="obj:FeeRate", ancestor_vsize="int", ancestor_fee="int"), props="C18")
class PackageFee:
    def pre(vsize, ancestor_vsize, ancestor_fee):
        return vsize >= 0 and ancestor_vsize >= 0 and 0 <= ancestor_fee <= 21 * 10**14

    def post_package_rate(vsize, fee_rate, ancestor_vsize, ancestor_fee, result):
        r = fee_rate.sats_per_kvbyte
        own = r * vsize
        pkg = r * (vsize + ancestor_vsize)
        # the child alone pays its own rate, and child + ancestors together pay the package rate
        return 1000 * result >= own and 1000 * (result + ancestor_fee) >= pkg and \
            (1000 * (result - 1) < own or 1000 * (result - 1 + ancestor_fee) < pkg)


@contract("btclib.amount.valid_sats_amount", types=dict(amount="int", dust="int"), props="C18 C19")
class ValidSatsAmount:
    def raises_BTClibValueError(amount, dust):
        return not (dust <= amount <= 2_100_000_000_000_000)

    def post_identity(amount, result):
        return result == amount


# ---------------------------------------------------------------- bounded stand-ins
def _gen_rate_str(rng):
    c = rng.random()
    if c < 0.3:
        s = f"{rng.randrange(0, 5000)}.{rng.randrange(0, 1000):03d}"
    elif c < 0.5:
        s = f"{rng.randrange(0, 100)}." + "".join(rng.choice("0123456789") for _ in range(rng.choice([1, 2, 3, 4, 6, 27, 28, 30])))
    elif c < 0.65:
        s = "1." + "0" * rng.choice([24, 26, 27, 28, 30]) + rng.choice(["1", "4", "5"])
    elif c < 0.75:
        s = f"{rng.randrange(1, 999)}e-{rng.randrange(0, 6)}"
    elif c < 0.85:
        s = rng.choice(["0", "1", "0.001", "0.0005", "-1", "1e3", "NaN", "Infinity", "abc", "", "1_0"])
    else:
        s = str(rng.randrange(0, 10**30)) + "." + str(rng.randrange(0, 1000))
    return dict(sats_per_vbyte=s)


def _exact(s):
    try:
        from decimal import Decimal, InvalidOperation
        d = Decimal(s)
        if not d.is_finite():
            return None
        return Fraction(d) * 1000       # Fraction(Decimal) is exact
    except Exception:  # noqa: BLE001
        return None


@contract("btclib.fee.FeeRate.from_sats_per_vbyte", gen=_gen_rate_str, props="C18", n_quick=2000, n_thorough=40000,
          rule="decimal strings with up to 30 significant digits, exponents, millisatoshi boundaries, non-numbers")
class FromSatsPerVbyteBounded:
    """exact conversion: accepted exactly when 1000 x the decimal is a non-negative integer"""

    def raises_BTClibValueError(sats_per_vbyte):
        f = _exact(sats_per_vbyte)
        return f is None or f.denominator != 1 or f < 0

    def post_exact(sats_per_vbyte, result):
        return Fraction(result.sats_per_kvbyte) == _exact(sats_per_vbyte)


# ---------------------------------------------------------------- funding: build_psbt
def _gen_build(rng):
    from btclib.psbt.psbt_in import PsbtIn
    from btclib.tx.out_point import OutPoint
    from btclib.tx.tx_out import TxOut
    nin = rng.randrange(1, 4)
    ins = []
    total = 0
    for k in range(nin):
        v = rng.choice([1000, 5000, 20000, 100000, rng.randrange(600, 200000)])
        total += v
        spk = rng.choice([b"\x00\x14" + bytes(20), b"\x51\x20" + bytes([k + 1]) * 32])
        ins.append(PsbtIn(witness_utxo=TxOut(v, spk), previous_tx_id=bytes([k + 1]) * 32, output_index=k))
    nout = rng.randrange(0, 3)
    outs = [TxOut(rng.randrange(546, max(547, total // (nout + 1))), rng.choice([b"\x00\x14" + bytes(20), b"\x76\xa9\x14" + bytes(20) + b"\x88\xac"])) for _ in range(nout)]
    rate = FeeRate(sats_per_kvbyte=rng.choice([0, 1, 999, 1000, 1001, 1234, 2500, 12345, rng.randrange(0, 30000)]))
    change = rng.choice([None, b"\x00\x14" + bytes([9]) * 20, b"\x51\x20" + bytes([9]) * 32])
    # aim at the boundaries: leftover equal to the fee owed, one satoshi short, and around dust
    if outs and rng.random() < 0.7:
        probe = _safe_build(ins, outs, rate, None)
        if probe is not None:
            slack = total - sum(o.value for o in outs) - probe
            adj = rng.choice([slack, slack + 1, slack - 1, slack - 2, slack - 294, slack - 295, slack - 300, slack - 330, slack - 331])
            v = outs[-1].value + adj
            if v >= 546:
                outs[-1] = TxOut(v, outs[-1].script_pub_key)
    return dict(inputs=ins, outputs=outs, fee_rate=rate, change_script_pub_key=change)


def _safe_build(ins, outs, rate, change):
    """fee owed by the transaction without change (None if it cannot be built)"""
    from btclib.psbt.psbt import PSBT_V0, Psbt
    from btclib.psbt.psbt_out import PsbtOut
    try:
        p = Psbt(2, ins, [PsbtOut(amount=o.value, script_pub_key=o.script_pub_key.script) for o in outs], PSBT_V0, {}, check_validity=False)
        return fee_ceiling(rate.sats_per_kvbyte, p.vsize_estimate())
    except Exception:  # noqa: BLE001
        return None


def fee_ceiling(rate, vsize):
    return -((-rate * vsize) // 1000)


@contract("btclib.tx_builder.build_psbt", gen=_gen_build, props="C18", n_quick=400, n_thorough=8000,
          rule="1..3 segwit/taproot inputs, 0..2 outputs, integer sat/kvB rates incl. non-multiples of 1000, with and without a change script; leftovers steered to the fee owed, one satoshi short, and around the dust threshold")
class BuildPsbtBounded:
    """conservation, fee >= ceil(rate x final vsize), no dust change, refusal when the inputs
    cannot cover the outputs and the fee"""

    def raises_BTClibValueError_only_if(inputs, outputs, fee_rate, change_script_pub_key):
        total_in = sum(i.witness_utxo.value for i in inputs)
        total_out = sum(o.value for o in outputs)
        owed_without_change = _safe_build(inputs, outputs, fee_rate, None)
        nothing_paid = not outputs
        return nothing_paid or owed_without_change is None or total_in - total_out < owed_without_change

    def post_accounting(inputs, outputs, fee_rate, change_script_pub_key, result):
        total_in = sum(i.witness_utxo.value for i in inputs)
        total_out = sum((o.amount or 0) for o in result.psbt.outputs)
        paid = sum(o.value for o in outputs)
        conserves = total_in == total_out + result.fee and total_out == paid + result.change
        owed = fee_ceiling(fee_rate.sats_per_kvbyte, result.psbt.vsize_estimate())
        pays_rate = result.fee >= owed
        no_dust = result.change_index is None or result.change >= fee_mod.dust_threshold(change_script_pub_key)
        exact_fee_with_change = result.change_index is None or result.fee == owed
        return conserves and pays_rate and no_dust and exact_fee_with_change


# ---------------------------------------------------------------- estimated input sizes (C18)
def _push_len(n):
    """bytes script.serialize writes for a data push of n bytes (Core's CScript::operator<<)"""
    if n == 0:
        return 1
    if n < 76:
        return 1 + n
    if n <= 0xFF:
        return 2 + n
    if n <= 0xFFFF:
        return 3 + n
    return 5 + n


def _gen_est(rng):
    import hashlib
    from btclib.psbt.psbt_in import PsbtIn
    from btclib.tx.out_point import OutPoint
    from btclib.tx.tx_in import TxIn
    from btclib.tx.tx_out import TxOut
    from spec.ec_ref import SECP256K1 as C, sec_compressed
    h160 = lambda b: hashlib.new("ripemd160", hashlib.sha256(b).digest()).digest()

    def pub(i, compressed):
        P = C.mul(i + 2, C.G)
        return sec_compressed(P) if compressed else b"\x04" + P[0].to_bytes(32, "big") + P[1].to_bytes(32, "big")
    kind = rng.choice(["p2pkh", "p2sh-multi", "p2sh-multi", "p2sh-multi", "bare-multi", "p2wpkh", "p2sh-p2wpkh", "p2wsh-multi", "p2sh-p2wsh-multi"])
    compressed = rng.random() < 0.7
    n = rng.choice([1, 2, 3, 7, 8, 15]) if compressed else rng.choice([1, 2, 3, 4, 7])
    if kind == "bare-multi":
        n = min(n, 3)
    m = rng.randrange(1, n + 1)
    keys = [pub(i, compressed) for i in range(n)]
    multi = bytes([0x50 + m]) + b"".join(bytes([len(k)]) + k for k in keys) + bytes([0x50 + n]) + b"\xae"
    kw = {}
    if kind == "p2pkh":
        from btclib.bip32 import BIP32KeyOrigin
        spk = b"\x76\xa9\x14" + h160(keys[0]) + b"\x88\xac"
        kw["hd_key_paths"] = {keys[0]: BIP32KeyOrigin(bytes(4), [0])}       # the Updater's derivation data says which spelling of the key is hashed
        want = (_push_len(72) + _push_len(len(keys[0])), [])
    elif kind == "p2sh-multi":
        spk = b"\xa9\x14" + h160(multi) + b"\x87"
        kw["redeem_script"] = multi
        want = (1 + m * _push_len(72) + _push_len(len(multi)), [])
    elif kind == "bare-multi":
        spk = multi
        want = (1 + m * _push_len(72), [])
    elif kind == "p2wpkh":
        spk = b"\x00\x14" + h160(pub(0, True))
        want = (0, [72, 33])
    elif kind == "p2sh-p2wpkh":
        red = b"\x00\x14" + h160(pub(0, True))
        spk = b"\xa9\x14" + h160(red) + b"\x87"
        kw["redeem_script"] = red
        want = (_push_len(22), [72, 33])
    else:
        keys = [pub(i, True) for i in range(n)]
        multi = bytes([0x50 + m]) + b"".join(bytes([len(k)]) + k for k in keys) + bytes([0x50 + n]) + b"\xae"
        wp = b"\x00\x20" + hashlib.sha256(multi).digest()
        kw["witness_script"] = multi
        if kind == "p2wsh-multi":
            spk = wp
            want = (0, [0] + [72] * m + [len(multi)])
        else:
            spk = b"\xa9\x14" + h160(wp) + b"\x87"
            kw["redeem_script"] = wp
            want = (_push_len(34), [0] + [72] * m + [len(multi)])
    psbt_in = PsbtIn(witness_utxo=TxOut(100000, spk), **kw)
    return dict(psbt_in=psbt_in, tx_in=TxIn(OutPoint(b"\x05" * 32, 0)), _want=want)


@contract("btclib.psbt.psbt_size.estimated_input_sizes", gen=_gen_est, props="C18", n_quick=300, n_thorough=5000,
          rule="p2pkh, bare / p2sh / p2wsh / p2sh-p2wsh m-of-n multisig with 1..15 compressed or 1..7 uncompressed keys (redeem scripts on both sides of the 75/76 and 255/256 push boundaries), p2wpkh, p2sh-p2wpkh")
class EstimatedInputSizesBounded:
    """the estimate is the script_sig length and witness element sizes of the spend with 72-byte
    signatures, pushes written as CScript writes them: never below any transaction the library signs"""

    def post_is_worst_case_layout(_want, result):
        return (result[0], list(result[1])) == (_want[0], list(_want[1]))
