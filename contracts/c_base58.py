"""Contracts: base58 / b58 (C06), bounded against an independent reference."""
from btclib import b58, base58
from btclib.exceptions import BTClibTypeError, BTClibValueError
from pyvc.api import contract
from spec import base58_ref as ref


def _gen_payload(rng):
    n = rng.choice([0, 1, 4, 20, 21, 33, 34, 74, 78, rng.randrange(0, 78)])
    b = bytes(rng.getrandbits(8) for _ in range(n))
    if rng.random() < 0.4:
        z = rng.randrange(0, min(n, 6) + 1)
        b = b"\x00" * z + b[z:]
    return dict(v=b)


@contract("btclib.base58.encode", gen=_gen_payload, props="C06", n_quick=1500, n_thorough=30000)
class Base58EncodeBounded:
    def post_reference(v, result):
        return result == ref.check_encode(v).encode() and base58.decode(result) == v


def _gen_b58str(rng):
    v = _gen_payload(rng)["v"]
    s = ref.check_encode(v)
    c = rng.random()
    cs = list(s)
    if c < 0.25 and cs:
        i = rng.randrange(len(cs)); cs[i] = rng.choice(ref.ALPHABET + "0OIl")
    elif c < 0.35 and len(cs) > 1:
        i = rng.randrange(len(cs) - 1); cs[i], cs[i + 1] = cs[i + 1], cs[i]
    elif c < 0.45 and cs:
        cs.pop(rng.randrange(len(cs)))
    elif c < 0.5:
        cs.insert(0, "1")
    elif c < 0.55:
        cs = list(ref.b58encode_raw(v))        # no checksum
    s = "".join(cs)
    return dict(v=s if rng.random() < 0.5 else s.encode())


@contract("btclib.base58.decode", gen=_gen_b58str, props="C06 C19", n_quick=3000, n_thorough=60000,
          rule="Base58Check strings of random payloads (leading zeros included) and their single-character substitutions, transpositions, deletions, extra leading '1', missing checksum")
class Base58DecodeBounded:
    def pre(v):
        return len(v) <= base58.MAX_LENGTH

    def raises_BTClibValueError(v):
        return ref.check_decode(v if isinstance(v, str) else v.decode()) is None

    def post_reference(v, result):
        s = v if isinstance(v, str) else v.decode()
        return result == ref.check_decode(s) and base58.encode(result).decode() == s


NETS = ["mainnet", "testnet", "regtest", "signet", "testnet4"]


def _gen_h160(rng):
    return dict(script_type=rng.choice(["p2pkh", "p2sh"]), h160=bytes(rng.getrandbits(8) for _ in range(20)), network=rng.choice(NETS))


@contract("btclib.b58.address_from_h160", gen=_gen_h160, props="C06", n_quick=1000, n_thorough=20000)
class AddressFromH160Bounded:
    def post_inverse(script_type, h160, network, result):
        from btclib.network import NETWORKS
        t, h, net = b58.h160_from_address(result)
        pfx = (NETWORKS[network].p2pkh if script_type == "p2pkh" else NETWORKS[network].p2sh)
        return (t == script_type and h == h160 and NETWORKS[net].network_type == NETWORKS[network].network_type
                and ref.check_decode(result) == pfx + h160)
