"""Contracts: merkle roots and branches, SipHash, BIP158 filters (C17)."""
from btclib import hashes
from btclib.block import merkle_proof
from btclib.block.block_filter import BasicBlockFilter
from btclib.exceptions import BTClibTypeError, BTClibValueError
from pyvc.api import contract
from spec import block_ref as ref


def _leaves(rng, distinct=True):
    n = rng.choice([1, 2, 3, 4, 5, 6, 7, 8, 9, 11, 12, 13, 16, 17])
    hs = [bytes(rng.getrandbits(8) for _ in range(32)) for _ in range(n)]
    if not distinct and n > 1 and rng.random() < 0.6:
        k = rng.randrange(n - 1)
        hs[k + 1] = hs[k] if rng.random() < 0.5 else hs[rng.randrange(n)]
        if rng.random() < 0.3:
            hs = hs + hs[-(len(hs) % 2 + 1):]      # duplicated tail
    return hs


def _gen_root(rng):
    return dict(hashes=_leaves(rng, False), hf=hashes.hash256)


@contract("btclib.hashes.merkle_root_and_mutated_from_hashes", gen=_gen_root, props="C17", n_quick=500, n_thorough=10000,
          rule="1..17 leaves, repeated hashes, duplicated tails")
class MerkleRootBounded:
    def post_is_core(hashes, result):
        return tuple(result) == ref.merkle_root_and_mutated(hashes)


def _gen_proof(rng):
    hs = _leaves(rng, True)
    root, _ = ref.merkle_root_and_mutated(hs)
    i = rng.randrange(len(hs))
    branch = ref.merkle_branch(hs, i)
    honest = True
    idx = i
    leaf = hs[i]
    c = rng.random()
    if c < 0.45 and branch:
        idx = rng.choice([j for j in range(2 ** len(branch) + 2) if j != i])
        honest = False
    elif c < 0.55:
        leaf = hs[(i + 1) % len(hs)] if len(hs) > 1 else bytes(32)
        honest = leaf == hs[i]
    elif c < 0.65 and branch:
        k = rng.randrange(len(branch))
        branch[k] = bytes([branch[k][0] ^ 1]) + branch[k][1:]
        honest = False
    return dict(txid=leaf[::-1].hex() if rng.random() < 0.5 else leaf[::-1], branch=[b[::-1] for b in branch], index=idx, merkle_root=root[::-1], _honest=honest)


@contract("btclib.block.merkle_proof.verify", gen=_gen_proof, props="C17 C19", n_quick=1500, n_thorough=30000,
          rule="trees of 1..17 distinct leaves; the honest (leaf, branch, index) and every other index below 2^depth + 2, another leaf, a branch altered in one bit")
class MerkleProofBounded:
    """a correct branch proves its leaf at its index and no other leaf or index"""

    def post_verdict(txid, branch, index, merkle_root, _honest, result):
        return result is _honest


def _gen_sip(rng):
    n = rng.choice([0, 1, 7, 8, 9, 15, 16, 17, 31, 32, 33, 64, 255, 256, 257, rng.randrange(0, 600)])
    return dict(k0=rng.choice([0, 1, 2**64 - 1, rng.getrandbits(64)]), k1=rng.choice([0, 1, 2**64 - 1, rng.getrandbits(64)]), octets=bytes(rng.getrandbits(8) for _ in range(n)))


@contract("btclib.hashes.siphash", gen=_gen_sip, props="C17", n_quick=1500, n_thorough=30000,
          rule="keys 0, 1, 2^64-1 and random; data lengths around every 8-byte boundary and 255/256/257")
class SipHashBounded:
    def post_is_siphash24(k0, k1, octets, result):
        return result == ref.siphash24(k0, k1, octets)


def _gen_filter(rng):
    block_hash = bytes(rng.getrandbits(8) for _ in range(32))
    elems = [bytes(rng.getrandbits(8) for _ in range(rng.choice([1, 20, 22, 25, 34]))) for _ in range(rng.choice([1, 2, 6, 20, 50]))]
    n, enc, values = ref.gcs_encode(block_hash, elems)
    f = BasicBlockFilter(block_hash, n, enc)
    absent = [bytes(rng.getrandbits(8) for _ in range(23)) for _ in range(rng.choice([0, 1, 5, 40, 120]))]
    present = rng.sample(elems, rng.choice([0, 1, 1, min(2, len(elems))]))
    query = absent + present
    rng.shuffle(query)
    return dict(self=f, elements=query, _elems=elems)


@contract("btclib.block.block_filter.BasicBlockFilter.match_any", gen=_gen_filter, props="C17", n_quick=300, n_thorough=6000,
          rule="filters of 1..50 elements built by the reference GCS encoder; queries mixing 0..120 absent scripts with 0..2 present ones")
class MatchAnyBounded:
    """matches every script it was built from (no false negative); equals the reference set test"""

    def post_reference(self, elements, _elems, result):
        n = len(set(_elems))
        values = {ref.gcs_hash(bytes(self.block_hash), e, n) for e in set(_elems)}
        want = any(ref.gcs_hash(bytes(self.block_hash), bytes(e), n) in values for e in elements)
        return result is want

    def post_decodes_to_the_same_set(self, _elems):
        n = len(set(_elems))
        return self.element_hashes == sorted(ref.gcs_hash(bytes(self.block_hash), e, n) for e in set(_elems))


from pyvc.api import lemma  # noqa: E402


@lemma("siphash.round_is_reference", types=dict(v0="bv64", v1="bv64", v2="bv64", v3="bv64"), props="C17", bv=True)
def sip_round(v0, v1, v2, v3):
    """one SipRound equals the paper's, for all 2^256 states"""
    return hashes._siphash_round(v0, v1, v2, v3) == ref._sipround(v0, v1, v2, v3)


# A lemma "siphash of 0 / 3 / 8 / 11 bytes equals the reference for all keys" was tried here: the
# generator does not support `|` between an integer read off bytes (unknown width) and a 64-bit
# vector, so it was reported unsupported (undecided) and is withdrawn; SipHash as a whole stays the
# bounded stand-in above, one SipRound is the proved part.
