"""Contracts: bech32 / b32 (C06)."""
from btclib import b32, bech32
from btclib.exceptions import BTClibTypeError, BTClibValueError
from pyvc.api import assume, contract, lemma
from spec import bech32_ref as ref


@lemma("bech32.polymod_is_reference", types=dict(values="list[bv5;1..5]"), props="C06", bv=True)
def polymod_ref(values):
    """the table-driven step equals BIP173's bit-by-bit step: all inputs of 1..5 symbols (every
    symbol value); the step expression does not depend on the position"""
    return bech32._polymod(values) == ref.polymod(values)


@lemma("bech32.taps_table_is_generator_combination", types=dict(), props="C06")
def taps_table():
    ok = True
    for top in range(32):
        t = 0
        for i in range(5):
            if (top >> i) & 1:
                t ^= ref.GEN[i]
        ok = ok and bech32._TAPS[top] == t
    return ok and len(bech32._TAPS) == 32


@lemma("bech32.checksum_closure", types=dict(data="list[bv5;1..8]", m="bv30"), props="C06")
def checksum_closure(data, m):
    """a created checksum verifies, for either constant (hrp 'bc')"""
    chk = bech32._create_checksum("bc", data, m)
    return bech32._verify_checksum("bc", data + chk, m) and len(chk) == 6


@lemma("b32.regroup_8_5_8_identity", types=dict(prog="list[bv8;2..40]"), props="C06")
def regroup_identity(prog):
    """8->5 padded then 5->8 unpadded is the identity on every witness program (each length
    2..40 is one case; bytes symbolic)"""
    five = b32.power_of_2_base_conversion(prog, 8, 5)
    back = b32.power_of_2_base_conversion(five, 5, 8, False)
    return back == prog and all(0 <= v < 32 for v in five)


@lemma("b32.regroup_is_reference_5_to_8", types=dict(data="list[bv5;1..9]"), props="C06")
def regroup_ref(data):
    """5->8 unpadded: accepts exactly when the BIP173 reference accepts, same bytes"""
    r = ref.convertbits(data, 5, 8, False)
    try:
        got = b32.power_of_2_base_conversion(data, 5, 8, False)
    except BTClibValueError:
        return r is None
    return r is not None and got == r


@contract("btclib.bech32._m_from_wit_ver", types=dict(data="list[int;0..2]"), props="C06")
class MFromWitVer:
    def raises_BTClibValueError(data):
        return len(data) == 0

    def post_constant(data, result):
        return result == (ref.BECH32_CONST if data[0] == 0 else ref.BECH32M_CONST)


# ---------------------------------------------------------------- bounded stand-ins
HRPS = ["bc", "tb", "bcrt"]


def _rand_addr(rng):
    hrp = rng.choice(HRPS)
    ver = rng.choice([0, 0, 1, 1, 2, 16, rng.randrange(0, 17)])
    ln = rng.choice([20, 32]) if ver == 0 else rng.choice([2, 20, 32, 33, 40, rng.randrange(2, 41)])
    prog = [rng.getrandbits(8) for _ in range(ln)]
    return hrp, ver, prog


def _mutate_str(rng, s):
    c = rng.random()
    cs = list(s)
    if c < 0.25:
        i = rng.randrange(len(cs)); cs[i] = rng.choice(ref.CHARSET + "1bio")
    elif c < 0.35 and len(cs) > 2:
        i = rng.randrange(len(cs) - 1); cs[i], cs[i + 1] = cs[i + 1], cs[i]
    elif c < 0.45:
        i = rng.randrange(len(cs)); cs[i] = cs[i].upper()
    elif c < 0.5:
        cs = [x.upper() for x in cs]
    elif c < 0.6:
        cs = cs[:-1]
    elif c < 0.7:
        # re-encode with an extra zero group / wrong constant (valid checksum, invalid address)
        hrp, ver, prog = _rand_addr(rng)
        data = [ver] + ref.convertbits(prog, 8, 5) + rng.choice([[0], [], [0, 0]])
        const = rng.choice([ref.BECH32_CONST, ref.BECH32M_CONST])
        return ref.bech32_encode(hrp, data, const)
    return "".join(cs)


def _gen_addr_str(rng):
    hrp, ver, prog = _rand_addr(rng)
    s = ref.bech32_encode(hrp, [ver] + ref.convertbits(prog, 8, 5), ref.BECH32_CONST if ver == 0 else ref.BECH32M_CONST)
    if rng.random() < 0.7:
        s = _mutate_str(rng, s)
    return dict(b32addr=s)


def _ref_witness(addr):
    for hrp in HRPS:
        v, p = ref.segwit_decode(hrp, addr)
        if v is not None:
            return v, bytes(p), hrp
    return None


@contract("btclib.b32.witness_from_address", gen=_gen_addr_str, props="C06 C19", n_quick=3000, n_thorough=60000,
          rule="valid segwit addresses (all versions, program lengths, 3 hrps) and their mutations: substitution, transposition, case flips, truncation, extra zero group, wrong checksum constant")
class WitnessFromAddressBounded:
    """accepted exactly when the BIP173/BIP350 reference decoder accepts; same payload"""

    def raises_BTClibValueError(b32addr):
        return _ref_witness(b32addr) is None

    def post_payload(b32addr, result):
        r = _ref_witness(b32addr)
        return r is not None and result[0] == r[0] and bytes(result[1]) == r[1]

    def post_reencodes(b32addr, result):
        return b32.address_from_witness(result[0], result[1], result[2]) == b32addr.lower()


def _gen_bech(rng):
    hrp = rng.choice(["bc", "tb", "a", "0", "12", "split", "an83characterlonghumanreadablepartthatcontainsthenumber1andtheexcludedcharactersbio"])
    data = [rng.randrange(32) if rng.random() < 0.8 else rng.randrange(10) for _ in range(rng.choice([0, 1, 5, 10, 33, 60]))]
    if rng.random() < 0.3:
        hrp = "".join(rng.choice("0123456789") for _ in range(rng.randrange(1, 4)))
        s = None
        for _ in range(400):
            data = [rng.choice([0, 15, 10, 26, 5, 21, 20, 29, 28, 30, 25]) for _ in range(rng.randrange(0, 4))]  # symbols whose characters are digits
            const = rng.choice([ref.BECH32_CONST, ref.BECH32M_CONST])
            cand = ref.bech32_encode(hrp, data, const)
            if not any(ch.isalpha() for ch in cand):
                s = cand
                break
        if s is None:
            s = ref.bech32_encode(hrp, data, ref.BECH32M_CONST)
    else:
        s = ref.bech32_encode(hrp, data, rng.choice([ref.BECH32_CONST, ref.BECH32M_CONST]))
    if rng.random() < 0.5:
        s = _mutate_str(rng, s)
    return dict(bech=s, m=rng.choice([ref.BECH32_CONST, ref.BECH32M_CONST]))


@contract("btclib.bech32.decode", gen=_gen_bech, props="C06 C19", n_quick=3000, n_thorough=60000)
class Bech32DecodeBounded:
    """raw codec against the reference (HRP alphabet narrower by design: only refusals of strings
    whose HRP is within '0'..'z' are held against the reference)"""

    def pre(bech):
        return len(bech) <= 90      # the 90-character limit is enforced at the address level

    def raises_BTClibValueError_only_if(bech, m):
        h, d, spec = ref.bech32_decode(bech)
        hrp_ok = all(47 < ord(x) < 123 for x in bech[:bech.rfind("1")]) if "1" in bech else True
        return h is None or not hrp_ok or (m == ref.BECH32_CONST) != (spec == "bech32")

    def post_payload(bech, m, result):
        h, d, spec = ref.bech32_decode(bech)
        return h == result[0] and d == result[1] and (m == ref.BECH32_CONST) == (spec == "bech32")
