"""Contracts: OutPoint, TxOut, Witness, TxIn, Tx (C05 codec obligations CO1-CO4, C18 sizes, C19)."""
import os
from io import BytesIO

from btclib.exceptions import BTClibRuntimeError, BTClibTypeError, BTClibValueError
from btclib.script.script_pub_key import ScriptPubKey
from btclib.script.witness import Witness
from btclib.tx.out_point import OutPoint
from btclib.tx.tx import Tx
from btclib.tx.tx_in import TxIn
from btclib.tx.tx_out import TxOut
from pyvc.api import assume, contract, lemma, shape
from spec import codec


MAX_PAYLOAD = 0x02000000   # var_int.MAX_SIZE: the protocol's MAX_SIZE (32 MiB); no wire object is larger


def sane(b):
    return len(b) <= MAX_PAYLOAD


def valid(x):
    try:
        x.assert_valid()
    except (BTClibValueError, BTClibTypeError, BTClibRuntimeError):
        return False
    return True


# ------------------------------------------------------------------ shapes
@shape("btclib.tx.out_point.OutPoint", fields=dict(tx_id="bytes", vout="int"))
class OutPointShape:
    def build(tx_id, vout):
        return OutPoint(tx_id, vout, check_validity=False)


@shape("btclib.script.script_pub_key.ScriptPubKey", fields=dict(script="bytes", network="const('mainnet')"))
class ScriptPubKeyShape:
    def build(script, network):
        return ScriptPubKey(script, network, check_validity=False)


@shape("btclib.tx.tx_out.TxOut", fields=dict(value="int", script_pub_key="obj:ScriptPubKey"))
class TxOutShape:
    def build(value, script_pub_key):
        return TxOut(value, script_pub_key, check_validity=False)


@shape("btclib.script.witness.Witness", fields=dict(stack="oneof[tuple[]|tuple[bytes]|tuple[bytes,bytes]]"))
class WitnessShape:
    def build(stack):
        return Witness(stack, check_validity=False)


@shape("btclib.script.witness.Witness#empty", fields=dict(stack="tuple[]"))
class EmptyWitnessShape:
    def build(stack):
        return Witness(stack, check_validity=False)


@shape("btclib.tx.tx_in.TxIn", fields=dict(prev_out="obj:OutPoint", script_sig="bytes", sequence="int", script_witness="obj:Witness"))
class TxInShape:
    def build(prev_out, script_sig, sequence, script_witness):
        return TxIn(prev_out, script_sig, sequence, script_witness, check_validity=False)


# ------------------------------------------------------------------ OutPoint
@contract("btclib.tx.out_point.OutPoint.serialize", types=dict(self="obj:OutPoint", check_validity="bool"), props="C05 C18 C19")
class OutPointSerialize:
    def pre(self, check_validity):
        return check_validity or valid(self)

    def raises_BTClibValueError_only_if(self, check_validity):
        return check_validity and not valid(self)

    def post_size(self, result):
        return len(result) == self._serialized_size() and len(result) == 36

    def post_layout(self, result):
        return result[:32] == self.tx_id[::-1] and int.from_bytes(result[32:], "little") == self.vout


@contract("btclib.tx.out_point.OutPoint.parse", types=dict(data="oneof[bytes|stream]", check_validity="bool"), props="C05 C19")
class OutPointParse:
    """CO3/CO4: what is accepted serializes back to exactly the bytes consumed; 36 bytes, no more"""

    def raises_BTClibValueError_only_if(data):
        return True

    def post_CO3(data, data0, result):
        if isinstance(data, BytesIO):
            return data.pos == data0.pos + 36 and result.serialize(check_validity=False) == data0.buf[data0.pos:data.pos]
        return result.serialize(check_validity=False) == data

    def post_valid(result):
        return valid(result)


@lemma("OutPoint.CO2", types=dict(x="obj:OutPoint", rest="bytes"), props="C05")
def outpoint_roundtrip(x, rest):
    assume(valid(x))
    s = BytesIO(x.serialize() + rest)
    y = OutPoint.parse(s)
    return y == x and s.read() == rest


@lemma("OutPoint.CO2_octets_trailing_refused", types=dict(x="obj:OutPoint", rest="bytes"), props="C05")
def outpoint_trailing(x, rest):
    assume(valid(x) and len(rest) > 0)
    try:
        OutPoint.parse(x.serialize() + rest)
    except BTClibValueError:
        return True
    return False


# ------------------------------------------------------------------ TxOut
@contract("btclib.tx.tx_out.TxOut.serialize", types=dict(self="obj:TxOut", check_validity="bool"), props="C05 C18 C19")
class TxOutSerialize:
    def pre(self, check_validity):
        return (check_validity or valid(self)) and sane(self.script_pub_key.script)

    def raises_BTClibValueError_only_if(self, check_validity):
        return check_validity and not valid(self)

    def post_size(self, result):
        return len(result) == self._serialized_size()

    def post_layout(self, result):
        return (int.from_bytes(result[:8], "little", signed=True) == self.value
                and result[8:] == codec.enc_varbytes(self.script_pub_key.script))


@contract("btclib.tx.tx_out.TxOut.parse", types=dict(data="oneof[bytes|stream]", check_validity="bool"), props="C05 C19")
class TxOutParse:
    def raises_BTClibValueError_only_if(data):
        return True

    def raises_BTClibRuntimeError_only_if(data):
        return True

    def post_CO3(data, data0, result, check_validity):
        if isinstance(data, BytesIO):
            return result.serialize(check_validity=False) == data0.buf[data0.pos:data.pos]
        return result.serialize(check_validity=False) == data

    def post_valid(result, check_validity):
        return not check_validity or valid(result)


@lemma("TxOut.CO2", types=dict(x="obj:TxOut", rest="bytes"), props="C05")
def txout_roundtrip(x, rest):
    assume(valid(x) and sane(x.script_pub_key.script))
    s = BytesIO(x.serialize() + rest)
    y = TxOut.parse(s)
    return y == x and s.read() == rest


# ------------------------------------------------------------------ Witness
@contract("btclib.script.witness.Witness.serialize", types=dict(self="obj:Witness", check_validity="bool"), props="C05 C18 C19")
class WitnessSerialize:
    def pre(self):
        return all(sane(w) for w in self.stack)

    def post_size(self, result):
        return len(result) == self._serialized_size()

    def post_layout(self, result):
        n = len(self.stack)
        out = codec.enc_varint(n)
        for w in self.stack:
            out = out + codec.enc_varbytes(w)
        return result == out


_THOROUGH = os.environ.get("VERIF_TIER") == "thorough"
# stacks of 2 cost 23 minutes and leave one z3 timeout (187 paths over symbolic offsets behind a
# variable-length first element): both tiers prove stacks of at most 1; WitnessRoundTripBounded below
# is the stand-in for longer ones
_MAX_STACK = 1


@contract("btclib.script.witness.Witness.parse", types=dict(data="oneof[bytes|stream]", check_validity="bool"), props="C05 C19")
class WitnessParse:
    """stack lengths 0..1 explored completely, for all element contents and lengths; longer
    stacks: bounded stand-in (WitnessRoundTripBounded)"""

    def pre(data):
        # the count byte: the list length is the bound of this proof
        b = data.buf[data.pos:data.pos + 1] if isinstance(data, BytesIO) else data[:1]
        return len(b) == 0 or b[0] <= _MAX_STACK

    def raises_BTClibValueError_only_if(data):
        return True

    def raises_BTClibRuntimeError_only_if(data):
        return True

    def post_CO3(data, data0, result):
        if isinstance(data, BytesIO):
            return result.serialize(check_validity=False) == data0.buf[data0.pos:data.pos]
        return result.serialize(check_validity=False) == data


@lemma("Witness.CO2", types=dict(x="obj:Witness", rest="bytes"), props="C05")
def witness_roundtrip(x, rest):
    assume(all(sane(w) for w in x.stack))
    s = BytesIO(x.serialize() + rest)
    y = Witness.parse(s)
    return y == x and s.read() == rest


# ------------------------------------------------------------------ TxIn
@contract("btclib.tx.tx_in.TxIn.serialize", types=dict(self="obj:TxIn", check_validity="bool"), props="C05 C18 C19")
class TxInSerialize:
    def pre(self, check_validity):
        return (check_validity or valid(self)) and sane(self.script_sig)

    def raises_BTClibValueError_only_if(self, check_validity):
        return check_validity and not valid(self)

    def post_size(self, result):
        return len(result) == self._serialized_size()

    def post_layout(self, result):
        return result == (self.prev_out.tx_id[::-1] + self.prev_out.vout.to_bytes(4, "little")
                          + codec.enc_varbytes(self.script_sig) + self.sequence.to_bytes(4, "little"))


@contract("btclib.tx.tx_in.TxIn.parse", types=dict(data="oneof[bytes|stream]", check_validity="bool"), props="C05 C19")
class TxInParse:
    def raises_BTClibValueError_only_if(data):
        return True

    def raises_BTClibRuntimeError_only_if(data):
        return True

    def post_CO3(data, data0, result):
        if isinstance(data, BytesIO):
            return result.serialize(check_validity=False) == data0.buf[data0.pos:data.pos]
        return result.serialize(check_validity=False) == data

    def post_no_witness(result):
        return len(result.script_witness.stack) == 0


@lemma("TxIn.CO2", types=dict(x="obj:TxIn", rest="bytes"), props="C05")
def txin_roundtrip(x, rest):
    """on the wire projection: TxIn's own encoding does not carry the witness (Tx does)"""
    assume(valid(x) and len(x.script_witness.stack) == 0 and sane(x.script_sig))
    s = BytesIO(x.serialize() + rest)
    y = TxIn.parse(s)
    return y == x and s.read() == rest


# ------------------------------------------------------------------ Tx
@shape("btclib.script.witness.Witness#le1", fields=dict(stack="oneof[tuple[]|tuple[bytes]]"))
class Witness1Shape:
    def build(stack):
        return Witness(stack, check_validity=False)


@shape("btclib.tx.tx_in.TxIn#tx", fields=dict(prev_out="obj:OutPoint", script_sig="bytes", sequence="int", script_witness="obj:Witness#le1"))
class TxInTxShape:
    def build(prev_out, script_sig, sequence, script_witness):
        return TxIn(prev_out, script_sig, sequence, script_witness, check_validity=False)



# Tx-level composition: list lengths are this proof's bound (element codecs are proved for every
# length on their own): quick tier one input and one output, thorough tier 1..2 of each
_VIN = "list[obj:TxIn#tx;1..2]" if _THOROUGH else "list[obj:TxIn#tx;1]"
_VOUT = "list[obj:TxOut;1..2]" if _THOROUGH else "list[obj:TxOut;1]"


@shape("btclib.tx.tx.Tx", fields=dict(version="int", lock_time="int", vin=_VIN, vout=_VOUT))
class TxShape:
    def build(version, lock_time, vin, vout):
        return Tx(version, lock_time, vin, vout, check_validity=False)


def small(b):
    return len(b) < 253     # Tx-level composition: element codecs are proved for every length on their own


def tx_sane(tx):
    return (all(small(i.script_sig) and all(small(w) for w in i.script_witness.stack) for i in tx.vin)
            and all(small(o.script_pub_key.script) for o in tx.vout))


def spec_tx_bytes(tx, include_witness):
    """BIP144 / protocol documentation layout"""
    segwit = include_witness and any(len(i.script_witness.stack) > 0 for i in tx.vin)
    out = tx.version.to_bytes(4, "little")
    if segwit:
        out = out + b"\x00\x01"
    out = out + codec.enc_varint(len(tx.vin))
    for i in tx.vin:
        out = out + i.prev_out.tx_id[::-1] + i.prev_out.vout.to_bytes(4, "little")
        out = out + codec.enc_varbytes(i.script_sig) + i.sequence.to_bytes(4, "little")
    out = out + codec.enc_varint(len(tx.vout))
    for o in tx.vout:
        out = out + o.value.to_bytes(8, "little", signed=True) + codec.enc_varbytes(o.script_pub_key.script)
    if segwit:
        for i in tx.vin:
            out = out + codec.enc_varint(len(i.script_witness.stack))
            for w in i.script_witness.stack:
                out = out + codec.enc_varbytes(w)
    return out + tx.lock_time.to_bytes(4, "little")


@contract("btclib.tx.tx.Tx.serialize", types=dict(self="obj:Tx", include_witness="bool", check_validity="bool"), props="C05 C18 C19")
class TxSerialize:
    """all field values, list lengths 1..2 (the list-length bound is this proof's; see DESIGN)"""

    def pre(self):
        return tx_sane(self) and valid(self)

    def post_layout(self, include_witness, result):
        return result == spec_tx_bytes(self, include_witness)

    def post_size(self, include_witness, result):
        return len(result) == self._serialized_size(include_witness)


@contract("btclib.tx.tx.Tx.weight", types=dict(self="obj:Tx"), props="C18")
class TxWeight:
    def pre(self):
        return valid(self) and tx_sane(self)

    def post_weight(self, result):
        return result == 3 * len(self.serialize(include_witness=False)) + len(self.serialize(include_witness=True))


@contract("btclib.tx.tx.Tx.vsize", types=dict(self="obj:Tx"), props="C18")
class TxVsize:
    def pre(self):
        return valid(self) and tx_sane(self)

    def post_vsize(self, result):
        w = self.weight
        return 4 * result >= w and 4 * (result - 1) < w


@lemma("Tx.CO2", types=dict(x="obj:Tx", rest="bytes", include_witness="bool"), props="C05")
def tx_roundtrip(x, rest):
    assume(valid(x) and tx_sane(x))
    s = BytesIO(x.serialize(include_witness=True) + rest)
    y = Tx.parse(s)
    return y == x and s.read() == rest



def _gen_witness(rng):
    n = rng.choice([0, 1, 2, 3, 5, 8, 252, 253])
    sizes = [0, 1, 2, 32, 72, 252, 253, 254, 520, 521, 65535, 65536]
    stack = [bytes(rng.getrandbits(8) for _ in range(rng.choice(sizes if n < 6 else sizes[:6]))) for _ in range(n)]
    return dict(self=Witness(stack))


@contract("btclib.script.witness.Witness.serialize", gen=_gen_witness, props="C05 C18", n_quick=300, n_thorough=6000,
          rule="stacks of 0..253 elements with lengths on both sides of every CompactSize boundary")
class WitnessRoundTripBounded:
    """CO1-CO4 on stacks longer than the proved ones: the layout, the size, parse o serialize = id,
    serialize o parse = id, and a stream left on the byte after"""

    def post_codec(self, result):
        want = codec.enc_varint(len(self.stack)) + b"".join(codec.enc_varbytes(w) for w in self.stack)
        s = BytesIO(result + b"tail")
        back = Witness.parse(s)
        return result == want and back == self and s.read() == b"tail" and Witness.parse(result).serialize() == result
