"""Contracts: ECDSA sign / verify / recover against SEC 1 (C02, C04 arms, C19)."""
import hashlib

from btclib.curves.curve import CURVES, mult, secp256k1
from btclib.ecc import dsa
from btclib.exceptions import BTClibRuntimeError, BTClibTypeError, BTClibValueError
from pyvc.api import contract
from spec import ecdsa_ref as ref

CURVE_NAMES = ["secp256k1", "secp256k1", "secp256r1", "secp112r1", "secp112r2", "secp128r2", "secp160k1", "secp192k1"]


def _gen_raw(rng):
    ec = CURVES[rng.choice(CURVE_NAMES)]
    n = ec.n
    q = rng.choice([1, 2, n - 1, rng.randrange(1, n)])
    k = rng.choice([1, 2, n - 1, rng.randrange(1, n)])
    C = ref.curve_of(ec)
    K = C.mul(k, C.G)
    r = K[0] % n
    if rng.random() < 0.6 and r:
        # steer s to the boundary region of the low-s rule: c = s*k - r*q
        half = n // 2
        top = 1 << (n.bit_length() - 1)
        s = rng.choice([half, half + 1, half + 2, half - 1, top, top - 1, top + 1, min(top, n - 1), (half + top) // 2, n - 1, 1])
        s %= n
        c = (s * k - r * q) % n
    else:
        c = rng.getrandbits(n.bit_length()) % n
    return dict(c=c, q=q, nonce=k, lower_s=rng.random() < 0.7, ec=ec)


@contract("btclib.ecc.dsa._sign_recoverable_", gen=_gen_raw, props="C02", n_quick=300, n_thorough=6000,
          rule="prime-order and cofactor-4 curves; keys and nonces at 1, 2, n-1 and random; challenges steered so that s falls on n//2, n//2+1, 2^(nlen-1) and their neighbours")
class SignRecoverableBounded:
    """SEC 1 signing equation; low-s form when asked; the recovery id recovers the signer's key"""

    def raises_BTClibRuntimeError(c, q, nonce, ec):
        return ref.sign_raw(ref.curve_of(ec), c, q, nonce) is None

    def post_equation_and_low_s(c, q, nonce, lower_s, ec, result):
        sig, key_id = result
        C = ref.curve_of(ec)
        r, s, K = ref.sign_raw(C, c, q, nonce)
        want_s = ec.n - s if (lower_s and 2 * s > ec.n) else s
        return sig.r == r and sig.s == want_s and (not lower_s or 2 * sig.s <= ec.n) and ref.verify(C, c, C.mul(q, C.G), sig.r, sig.s)

    def post_recovery(c, q, nonce, lower_s, ec, result):
        sig, key_id = result
        C = ref.curve_of(ec)
        QJ = dsa._recover_pub_key_(key_id, c, sig.r, sig.s, ec, lower_s=False)
        Q = ec.aff_from_jac_var(QJ)
        return tuple(Q) == C.mul(q, C.G)


def _gen_sig_valid(rng):
    ec = CURVES[rng.choice(["secp112r2", "secp128r2", "secp112r1", "secp256k1", "secp160k1"])]
    C = ref.curve_of(ec)
    if rng.random() < 0.7:
        k = rng.randrange(1, ec.n)
        r = C.mul(k, C.G)[0] % ec.n or 1
    else:
        r = rng.choice([0, 1, ec.n - 1, ec.n, rng.randrange(1, ec.n)])
    s = rng.choice([0, 1, ec.n - 1, ec.n, rng.randrange(1, ec.n)])
    return dict(r=r, s=s, ec=ec)


@contract("btclib.ecc.dsa.Sig", gen=_gen_sig_valid, props="C02 C19", n_quick=400, n_thorough=8000,
          rule="(r, s) on prime-order and cofactor-4 curves: r from real nonces (so that x_K = r + j*n for every j occurs), boundary and random r, s")
class SigValidBounded:
    """a signature object is valid exactly when r, s are in 1..n-1 and r is congruent mod n to an
    abscissa below p"""

    def raises_BTClibValueError(r, s, ec):
        C = ref.curve_of(ec)
        return not (0 < r < ec.n and 0 < s < ec.n and ref.r_is_liftable(C, r))


def _gen_verify(rng):
    ec = secp256k1 if rng.random() < 0.6 else CURVES[rng.choice(["secp256r1", "secp112r2", "secp160k1"])]
    C = ref.curve_of(ec)
    n = ec.n
    q = rng.randrange(1, n)
    k = rng.randrange(1, n)
    hlen = 32
    msg_hash = bytes(rng.getrandbits(8) for _ in range(hlen))
    from btclib.ecc.rfc6979_nonce import challenge_
    c = challenge_(msg_hash, ec, hashlib.sha256)
    sr = ref.sign_raw(C, c, q, k)
    if sr is None:
        raise ValueError("skip")
    r, s, _ = sr
    Q = C.mul(q, C.G)
    t = rng.random()
    if t < 0.15:
        s = rng.choice([n - s, (s + 1) % n or 1, 0, n])
    elif t < 0.3:
        r = rng.choice([(r + 1) % n or 1, 0, n, n - r])
    elif t < 0.4:
        Q = C.mul(q + 1, C.G)
    elif t < 0.5:
        msg_hash = bytes([msg_hash[0] ^ 1]) + msg_hash[1:]
    return dict(msg_hash=msg_hash, key=Q, sig=dsa.Sig(r, s, ec, check_validity=False), _c=None)


@contract("btclib.ecc.dsa.verify_", gen=_gen_verify, props="C02 C04 C19", both_arms=True, n_quick=300, n_thorough=6000,
          rule="valid signatures (high and low s) and single-field alterations of r, s, key, message; r, s equal to 0 and n")
class VerifyBounded:
    """true exactly when r and s are in 1..n-1 and the SEC 1 equation holds (btclib verifies
    with lower_s=False at this level); false -- never an exception -- otherwise"""

    def post_is_sec1(msg_hash, key, sig, result):
        from btclib.ecc.rfc6979_nonce import challenge_
        ec = sig.ec
        C = ref.curve_of(ec)
        c = challenge_(msg_hash, ec, hashlib.sha256)
        return result is (ref.verify(C, c, key, sig.r, sig.s) and ref.r_is_liftable(C, sig.r))


def _gen_sign(rng):
    return dict(msg_hash=bytes(rng.getrandbits(8) for _ in range(32)), prv_key=rng.choice([1, 2, secp256k1.n - 1, rng.randrange(1, secp256k1.n)]))


@contract("btclib.ecc.dsa.sign_", gen=_gen_sign, props="C02 C04", both_arms=True, n_quick=120, n_thorough=3000)
class SignBounded:
    """produced signatures verify, are low-s, are reproducible from (key, message) alone and are
    the same on both arms"""

    def post_verifies_low_s_deterministic(msg_hash, prv_key, result):
        C = ref.curve_of(secp256k1)
        from btclib.ecc.rfc6979_nonce import challenge_
        c = challenge_(msg_hash, secp256k1, hashlib.sha256)
        again = dsa.sign_(msg_hash, prv_key)
        return ref.verify(C, c, C.mul(prv_key, C.G), result.r, result.s) and 2 * result.s <= secp256k1.n and again == result


# ---------------------------------------------------------------- public key recovery, both arms
def _gen_recover(rng):
    C = ref.curve_of(secp256k1)
    n = secp256k1.n
    msg_hash = bytes(rng.getrandbits(8) for _ in range(32))
    from btclib.ecc.rfc6979_nonce import challenge_
    c = challenge_(msg_hash, secp256k1, hashlib.sha256)
    k = rng.randrange(1, n)
    K = C.mul(k, C.G)
    r = K[0] % n
    t = rng.random()
    if t < 0.35 and c:
        s = c * pow(k, -1, n) % n          # s*K == c*G: one candidate key is the point at infinity
    elif t < 0.8:
        q = rng.randrange(1, n)
        s = pow(k, -1, n) * (c + r * q) % n
    else:
        s = rng.randrange(1, n)
    if s == 0:
        s = 1
    return dict(key_id=rng.choice([0, 1, 0, 1, 2, 3, 4, -1]), msg_hash=msg_hash, sig=dsa.Sig(r, s, secp256k1, check_validity=False))


@contract("btclib.ecc.dsa.recover_pub_key_", gen=_gen_recover, props="C02 C04", both_arms=True, n_quick=300, n_thorough=6000,
          rule="honest and arbitrary signatures, 35% steered so that one candidate key is the point at infinity; key ids -1..4")
class RecoverBounded:
    """SEC 1 4.1.6 for the candidate the key id names: K = lift(r + (key_id // 2) n, parity
    key_id & 1), Q = r^-1 (s K - c G); refused -- with the same exception class on both arms --
    when the key id names no candidate or the abscissa does not lift (ValueError), or Q is the
    point at infinity (RuntimeError)"""

    def raises_BTClibValueError(key_id, msg_hash, sig):
        C = ref.curve_of(secp256k1)
        n = secp256k1.n
        if not 0 <= key_id <= 3:
            return True
        x = sig.r + (key_id // 2) * n
        return x >= C.p or C.lift_x(x, even=(key_id & 1) == 0) is None

    def raises_BTClibRuntimeError(key_id, msg_hash, sig):
        # the candidate exists and the key it leads to is the point at infinity
        from btclib.ecc.rfc6979_nonce import challenge_
        C = ref.curve_of(secp256k1)
        n = secp256k1.n
        c = challenge_(msg_hash, secp256k1, hashlib.sha256)
        if not 0 <= key_id <= 3 or sig.r + (key_id // 2) * n >= C.p:
            return False
        K = C.lift_x(sig.r + (key_id // 2) * n, even=(key_id & 1) == 0)
        if K is None:
            return False
        r1 = pow(sig.r, -1, n)
        return C.add(C.mul(r1 * sig.s % n, K), C.neg(C.mul(r1 * c % n, C.G))) is None

    def post_sec1(key_id, msg_hash, sig, result):
        from btclib.ecc.rfc6979_nonce import challenge_
        C = ref.curve_of(secp256k1)
        n = secp256k1.n
        c = challenge_(msg_hash, secp256k1, hashlib.sha256)
        K = C.lift_x(sig.r + (key_id // 2) * n, even=(key_id & 1) == 0)
        r1 = pow(sig.r, -1, n)
        Q = C.add(C.mul(r1 * sig.s % n, K), C.neg(C.mul(r1 * c % n, C.G)))
        return tuple(result) == tuple(Q)


# ---------------------------------------------------------------- Bitcoin message signing, both arms
def bms_run(msg, d, compressed, addr_kind, tamper):
    """sign a message for the address of a key; verify it; verify an altered one.  Returns the
    serialized signature and the two verdicts"""
    from btclib import b32, b58
    from btclib.ecc import bms
    from spec.ec_ref import SECP256K1 as C, sec_compressed
    P = C.mul(d, C.G)
    pub = sec_compressed(P) if compressed else b"\x04" + P[0].to_bytes(32, "big") + P[1].to_bytes(32, "big")
    wif_payload = b"\x80" + d.to_bytes(32, "big") + (b"\x01" if compressed else b"")
    from spec.base58_ref import check_encode
    wif = check_encode(wif_payload)
    addr = {"p2pkh": lambda: b58.p2pkh(pub), "p2wpkh": lambda: b32.p2wpkh(pub), "p2wpkh-p2sh": lambda: b58.p2wpkh_p2sh(pub)}[addr_kind]()
    sig = bms.sign(msg, wif, addr)
    ok = bms.verify(msg, addr, sig)
    ser = sig.serialize()
    if tamper == "msg":
        bad = bms.verify(msg + b"!", addr, sig)
    elif tamper == "s":
        alt = bytearray(ser)
        alt[-1] ^= 1
        bad = bms.verify(msg, addr, bytes(alt))
    elif tamper == "flag":
        alt = bytearray(ser)
        alt[0] = 27 + ((alt[0] - 27) ^ 1) if alt[0] < 35 else alt[0] ^ 1
        bad = bms.verify(msg, addr, bytes(alt))
    else:
        other = b58.p2pkh(sec_compressed(C.mul(d % (C.n - 1) + 1, C.G)))
        bad = bms.verify(msg, other, sig)
    return ser, ok, bad, addr if isinstance(addr, str) else addr.decode()


def _gen_bms(rng):
    compressed = rng.random() < 0.7
    kind = rng.choice(["p2pkh", "p2wpkh", "p2wpkh-p2sh"]) if compressed else "p2pkh"
    return dict(msg=rng.choice([b"", b"hello", "ciao €".encode(), bytes(rng.getrandbits(8) for _ in range(rng.randrange(1, 300)))]),
                d=rng.choice([1, 2, secp256k1.n - 1, rng.randrange(1, secp256k1.n)]), compressed=compressed, addr_kind=kind, tamper=rng.choice(["msg", "s", "flag", "addr"]))


@contract("contracts.c_dsa.bms_run", gen=_gen_bms, props="C02 C04 C10", both_arms=True, n_quick=150, n_thorough=3000,
          rule="messages of 0..300 bytes; compressed and uncompressed keys; p2pkh, p2wpkh, p2wpkh-p2sh addresses; one alteration of message, s, recovery flag or address")
class BmsBounded:
    """the 65-byte signature is [flag][r][s] with (r, s) an ECDSA signature, by the reference
    verifier, of sha256d(varbytes('Bitcoin Signed Message:\\n') || varbytes(msg)) under the key;
    it verifies for its address and for no altered input; the same bytes on both arms"""

    def post_is_ecdsa_over_the_envelope(msg, d, result):
        from spec.codec import enc_varbytes
        from spec.ec_ref import SECP256K1 as C
        ser, ok, bad, addr = result
        magic = b"Bitcoin Signed Message:\n"
        h = hashlib.sha256(hashlib.sha256(enc_varbytes(magic) + enc_varbytes(msg)).digest()).digest()
        r, s = int.from_bytes(ser[1:33], "big"), int.from_bytes(ser[33:], "big")
        return len(ser) == 65 and ok is True and bad is False and ref.verify(C, int.from_bytes(h, "big") % C.n, C.mul(d, C.G), r, s)
