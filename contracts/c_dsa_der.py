"""Contracts: DER codec of btclib.ecc.dsa (C02 canonical DER, C05 CO2/CO3, C19)."""
from io import BytesIO

from btclib.ecc import dsa
from btclib.ecc.dsa import Sig
from btclib.exceptions import BTClibRuntimeError, BTClibTypeError, BTClibValueError
from pyvc.api import assume, contract, lemma
from spec import der


@contract("btclib.ecc.dsa._serialize_scalar", types=dict(scalar="int"), props="C02 C05")
class SerializeScalar:
    def pre(scalar):
        return 0 <= scalar < 2**256

    def post_is_der_integer(scalar, result):
        return result == der.der_int(scalar)

    def post_length(scalar, result):
        return 3 <= len(result) <= 35


@contract("btclib.ecc.dsa._deserialize_scalar", types=dict(sig_data_stream="stream", strict="const(True)"), props="C02 C05 C19")
class DeserializeScalarStrict:
    """strict parsing accepts only the canonical encoding (CO3): what is returned re-encodes to
    exactly the bytes consumed.  Scalar lengths 0..33 by complete case split on the length byte;
    longer ones cannot be a signature scalar on any catalogued curve (n < 2**264)."""

    def pre(sig_data_stream):
        s = sig_data_stream
        return len(s.buf) - s.pos < 2 or s.buf[s.pos + 1] <= 33

    def split_length(sig_data_stream):
        s = sig_data_stream
        return (s.buf[s.pos + 1] if len(s.buf) - s.pos >= 2 else 0, 0, 33)

    def raises_BTClibValueError_only_if(sig_data_stream):
        return True

    def post_CO3(sig_data_stream, sig_data_stream0, result):
        s0 = sig_data_stream0
        return result >= 0 and der.der_int(result) == s0.buf[s0.pos:sig_data_stream.pos]


@lemma("dsa.scalar_CO2", types=dict(x="int", rest="bytes"), props="C02 C05")
def scalar_roundtrip(x, rest):
    assume(0 < x < 2**256)
    s = BytesIO(dsa._serialize_scalar(x) + rest)
    y = dsa._deserialize_scalar(s, True)
    return y == x and s.read() == rest


# ---------------------------------------------------------------- bounded stand-ins
def _rand_scalar(rng):
    c = rng.random()
    if c < 0.3:
        return rng.choice([1, 2, 0x7F, 0x80, 0xFF, 0x100, 0x7FFF, 0x8000, 2**255, 2**255 - 1, 2**248, 2**248 - 1, 2**247])
    return rng.getrandbits(rng.choice([7, 8, 15, 16, 64, 128, 248, 255, 256])) or 1


def _mutate(rng, b):
    b = bytearray(b)
    c = rng.random()
    if c < 0.2 and b:
        i = rng.randrange(len(b)); b[i] = rng.choice([0, 0x80, 0x7F, 0xFF, b[i] ^ 1, (b[i] + 1) % 256])
    elif c < 0.35:
        b += bytes([rng.getrandbits(8)])
    elif c < 0.5 and b:
        del b[rng.randrange(len(b))]
    elif c < 0.65 and len(b) > 4:
        # insert a zero pad in front of r or s and fix the lengths
        pos = 4 if rng.random() < 0.5 else 6 + b[3]
        if pos < len(b):
            b.insert(pos, 0); b[1] = (b[1] + 1) % 256
            if pos == 4:
                b[3] = (b[3] + 1) % 256
            else:
                b[pos - 1] = (b[pos - 1] + 1) % 256
    return bytes(b)


def _gen_der(rng):
    from btclib.curves.curve import secp256k1
    n = secp256k1.n
    r, s = _rand_scalar(rng) % n or 1, _rand_scalar(rng) % n or 1
    b = der.der_sig(r, s)
    if rng.random() < 0.7:
        b = _mutate(rng, b)
    return dict(data=b)


@contract("btclib.ecc.dsa.Sig.parse", gen=_gen_der, props="C02 C05 C19", n_quick=3000, n_thorough=60000,
          rule="canonical encodings of boundary/random (r, s) and their single-field mutations (byte edits, truncation, extension, zero padding)")
class SigParseBounded:
    """strict parsing accepts exactly the canonical encoding (BIP66) of a valid signature"""

    def raises_BTClibValueError_if(data):
        return not der.is_strict_der_sig(data)

    def post_CO3(data, result):
        return result.serialize(check_validity=False) == data and data == der.der_sig(result.r, result.s)


def _gen_sig(rng):
    from btclib.curves.curve import secp256k1
    n = secp256k1.n
    while True:
        r, s = _rand_scalar(rng) % n or 1, _rand_scalar(rng) % n or 1
        try:
            return dict(self=Sig(r, s))
        except BTClibValueError:
            continue


@contract("btclib.ecc.dsa.Sig.serialize", gen=_gen_sig, props="C02 C05 C18", n_quick=1500, n_thorough=30000)
class SigSerializeBounded:
    def post_CO2(self, result):
        return result == der.der_sig(self.r, self.s) and Sig.parse(result) == self and len(result) <= 72
