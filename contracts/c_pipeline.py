"""Contract over the PSBT pipeline (C10) -- bounded stand-in.

A sidecar driver walks the real roles: a descriptor (text written here, keys from the
independent BIP32 reference) derives the outputs being spent, an unsigned psbt is created from
the spending transaction, the descriptor's Updater fills each input, the library's
SoftwareSigner signs through `psbt.sign`, `finalize` and `extract_tx` produce the transaction,
and the library's own engine is asked about it -- then about the same transaction with one
committed field altered."""
import hashlib

from btclib.descriptors import descriptors as D
from btclib.exceptions import BTClibValueError
from btclib.psbt import psbt as psbt_mod
from btclib.psbt.psbt import Psbt
from btclib.psbt_signer import SoftwareSigner
from btclib.script.engine import verify_transaction
from btclib.script.script_pub_key import ScriptPubKey
from btclib.tx.out_point import OutPoint
from btclib.tx.tx import Tx
from btclib.tx.tx_in import TxIn
from btclib.tx.tx_out import TxOut
from pyvc.api import contract
from spec import bip32_ref
from spec.base58_ref import check_encode

XPRV_VER = bytes.fromhex("0488ade4")
XPUB_VER = bytes.fromhex("0488b21e")
H = bip32_ref.HARD
KINDS = ["pkh", "wpkh", "sh-wpkh", "wsh-multi", "sh-multi", "sh-wsh-multi", "wsh-sortedmulti", "tr", "tr-tree", "tr-multi_a", "wsh-miniscript", "wsh-miniscript-after"]
ACCOUNT = [H + 84, H, H]


def _masters(seeds):
    return [bip32_ref.master(bytes([s]) * 32, XPRV_VER) for s in seeds]


def _key_expr(master, branch):
    acct = bip32_ref.derive(master, ACCOUNT)
    fp = bip32_ref.h160(bip32_ref.pub_of(master))[:4].hex()
    xpub = check_encode(bip32_ref.serialize(dict(acct, version=XPUB_VER, key=bip32_ref.pub_of(acct))))
    return f"[{fp}/84h/0h/0h]{xpub}/{branch}/*"


def descriptor_text(kind, seeds, branch):
    ke = [_key_expr(m, branch) for m in _masters(seeds)]
    return {"pkh": f"pkh({ke[0]})", "wpkh": f"wpkh({ke[0]})", "sh-wpkh": f"sh(wpkh({ke[0]}))",
            "wsh-multi": f"wsh(multi(2,{ke[0]},{ke[1]},{ke[2]}))", "sh-multi": f"sh(multi(2,{ke[0]},{ke[1]},{ke[2]}))",
            "sh-wsh-multi": f"sh(wsh(multi(2,{ke[0]},{ke[1]},{ke[2]})))", "wsh-sortedmulti": f"wsh(sortedmulti(2,{ke[0]},{ke[1]},{ke[2]}))",
            "tr": f"tr({ke[0]})", "tr-tree": f"tr({ke[0]},{{pk({ke[1]}),pk({ke[2]})}})", "tr-multi_a": f"tr({ke[0]},multi_a(2,{ke[1]},{ke[2]}))",
            "wsh-miniscript": f"wsh(and_v(v:pk({ke[0]}),or_d(pk({ke[1]}),older(5))))",
            # an after() branch beside a two-key branch: which one a satisfaction takes depends on the lock time and on the
            # sequence (a final sequence disables nLockTime, BIP65)
            "wsh-miniscript-after": f"wsh(or_i(and_v(v:pk({ke[0]}),after(400000)),and_v(v:pk({ke[1]}),pk({ke[2]}))))"}[kind]


def pipeline(inputs, hash_type, lock_time, tamper, signers_used, version=0):
    """inputs: list of (kind, seeds, branch, index, sequence).  Returns (accepted, tampered verdict or
    None when the alteration is one the hash type does not commit to)"""
    descs, prevouts, prev_txs = [], [], []
    for k, (kind, seeds, branch, index, sequence) in enumerate(inputs):
        d = D.parse(D.add_checksum(descriptor_text(kind, seeds, branch)))
        spk = d.script_pub_key(index)
        utxo = TxOut(100_000 + 1000 * k, spk)
        prev = Tx(2, 0, [TxIn(OutPoint(bytes([0x70 + k]) * 32, 0))], [TxOut(5, b"\x51"), utxo])
        descs.append(d)
        prevouts.append(utxo)
        prev_txs.append(prev)
    vin = [TxIn(OutPoint(p.id, 1), b"", inputs[k][4]) for k, p in enumerate(prev_txs)]
    vout = [TxOut(60_000, b"\x00\x14" + bytes(range(20))), TxOut(30_000, b"\x51\x20" + bytes(range(32))), TxOut(20_000, b"\x00\x14" + bytes(range(1, 21)))][: len(inputs)]
    tx = Tx(2, lock_time, vin, vout)
    psbt = Psbt.from_tx(tx)
    for k, d in enumerate(descs):
        legacy = inputs[k][0] in ("pkh", "sh-multi")
        if legacy:
            psbt.inputs[k].non_witness_utxo = prev_txs[k]
        else:
            psbt.inputs[k].witness_utxo = prevouts[k]
        taproot = inputs[k][0].startswith("tr")
        ht = hash_type if taproot else (hash_type or 1)
        psbt.inputs[k].sig_hash_type = ht if ht else None
        psbt = d.update_psbt_input(psbt, k, inputs[k][3])
    if version == 2:
        psbt = psbt.to_v2()
    # C18: the weight estimated for the unsigned psbt (the library's miniscript sizer for the witness
    # scripts it reads as miniscript; None where the library refuses to estimate: a script path whose
    # leaf is the caller's knowledge)
    try:
        estimate = psbt.weight_estimate(D.miniscript_sizer)
    except BTClibValueError:
        estimate = None
    used = set()
    for k, (kind, seeds, branch, index, sequence) in enumerate(inputs):
        order = list(range(len(seeds)))
        if signers_used == "all" or kind == "wsh-miniscript-after":
            pick = order            # (the after() miniscript needs its two-key branch when the sequence is final)
        elif signers_used == "leaves" and kind in ("tr-tree", "tr-multi_a"):
            # the internal key does not sign: a script path is the only spend; one leaf of the tree
            # (finalize refuses to choose between two signed leaves), both keys of the multi_a leaf
            pick = order[1:2] if kind == "tr-tree" else order[1:]
        else:
            pick = order[:2] if kind not in ("tr-tree", "tr-multi_a") else order
        for j in pick:
            used.add(seeds[j])
    for s in sorted(used):
        master = bip32_ref.master(bytes([s]) * 32, XPRV_VER)
        signer = SoftwareSigner(check_encode(bip32_ref.serialize(master)))
        psbt, _ = psbt_mod.sign(psbt, signer)
    # a miniscript witness script and a taproot leaf that is not a single-key one are the caller's
    # to solve, as finalize's documentation says: the library's own miniscript solver for the
    # first, and for the second the descriptor's own `satisfy` over the signatures the psbt holds
    def solver(p, vin_i):
        if inputs[vin_i][0] == "tr-multi_a" and not p.inputs[vin_i].taproot_key_spend_signature:
            sigs = {key[:32]: sig for key, sig in p.inputs[vin_i].taproot_script_spend_signatures.items()}
            return descs[vin_i].satisfy(sigs, inputs[vin_i][3])
        return D.miniscript_solver(p, vin_i)
    final = psbt_mod.extract_tx(psbt_mod.finalize(psbt, solver=solver))
    try:
        verify_transaction(prevouts, final)
        accepted = True
    except BTClibValueError as e:
        accepted = "refused: " + str(e)[:160]
    # one committed field altered after signing
    base = hash_type & 3 if hash_type else 1
    acp = bool(hash_type & 0x80)
    alt_vin = [TxIn(i.prev_out, i.script_sig, i.sequence, i.script_witness) for i in final.vin]
    alt_vout = list(final.vout)
    alt_lock = final.lock_time
    alt_prev = list(prevouts)
    committed = True
    if tamper == "amount-out":
        alt_vout[0] = TxOut(alt_vout[0].value + 1, alt_vout[0].script_pub_key)
        committed = base == 1 or (base == 3)       # ALL commits to every output, SINGLE to output 0 of input 0
        if base == 3 and len(inputs) > 1:
            committed = True                        # input 0 signs output 0
    elif tamper == "sequence":
        alt_vin[0] = TxIn(final.vin[0].prev_out, final.vin[0].script_sig, final.vin[0].sequence ^ 1, final.vin[0].script_witness)
        committed = True                            # every input commits to its own sequence
    elif tamper == "lock-time":
        alt_lock += 1
        committed = True
    elif tamper == "spent-amount":
        committed = inputs[0][0] not in ("pkh", "sh-multi")      # the legacy digest does not commit to the amount
        alt_prev[0] = TxOut(prevouts[0].value + 1, prevouts[0].script_pub_key)
    else:
        alt_vout[-1] = TxOut(alt_vout[-1].value, ScriptPubKey(b"\x51\x20" + bytes(range(1, 33))))
        committed = base == 1 or (base == 3 and len(alt_vout) == 1)
        if base == 3 and len(alt_vout) == len(inputs) and len(inputs) > 1:
            committed = True                        # the last input signs the last output
    if base == 2 and tamper in ("amount-out", "script-out"):
        committed = False
    alt = Tx(final.version, alt_lock, alt_vin, alt_vout)
    try:
        verify_transaction(alt_prev, alt)
        tampered = True
    except BTClibValueError:
        tampered = False
    return accepted, (tampered if committed else None), estimate, final.weight


def _gen_pipeline(rng):
    n = rng.choice([1, 1, 2, 3])
    inputs = []
    for _ in range(n):
        kind = rng.choice(KINDS)
        seq = rng.choice([0xFFFFFFFF, 0xFFFFFFFE, 5, 6]) if kind != "wsh-miniscript" else rng.choice([5, 6, 0xFFFFFFFE])
        if kind == "wsh-miniscript-after":
            seq = rng.choice([0xFFFFFFFF, 0xFFFFFFFF, 0xFFFFFFFE])
        inputs.append((kind, rng.sample(range(1, 120), 3), rng.choice([0, 1]), rng.choice([0, 1, 7, 2**31 - 1]), seq))
    return dict(inputs=inputs, hash_type=rng.choice([0, 1, 1, 2, 3, 0x81, 0x82, 0x83]), lock_time=rng.choice([0, 500000]),
                tamper=rng.choice(["amount-out", "sequence", "lock-time", "spent-amount", "script-out"]), signers_used=rng.choice(["all", "quorum", "leaves"]),
                version=rng.choice([0, 0, 2]))


@contract("contracts.c_pipeline.pipeline", gen=_gen_pipeline, props="C10 C18", n_quick=150, n_thorough=1500,
          rule="1..3 inputs drawn from pkh, wpkh, sh(wpkh), wsh/sh/sh-wsh multi 2-of-3, sortedmulti, tr key path, tr with a two-leaf tree, tr with a multi_a leaf, two wsh miniscripts (older() / after() branches, final and non-final sequences); account xpubs with origins from the independent BIP32 reference, branches 0/1, indexes 0, 1, 7, 2^31-1; every hash type; psbt v0 and (converted before signing) v2; all signers, a quorum, or the leaf keys alone (script path); one alteration of an output amount, an output script, a sequence, the lock time or the spent amount")
class PipelineBounded:
    """what the library builds, updates, signs, finalizes and extracts, its engine accepts under
    the standard flags; the same transaction with a field altered that the hash type commits to
    is rejected"""

    def post_accepted_and_tamper_rejected(result):
        accepted, tampered = result[0], result[1]
        return accepted is True and tampered in (False, None)

    def post_estimate_bounds_the_signed_weight(result):
        # C18: never below the weight of the transaction the library then signs and finalizes
        estimate, actual = result[2], result[3]
        return estimate is None or estimate >= actual


# ---------------------------------------------------------------- BIP322 message signatures
def bip322_run(msg, d, addr_kind, tamper):
    from btclib import b32, b58, bip322
    from spec.ec_ref import SECP256K1 as C, sec_compressed
    from spec import taproot_ref
    P = C.mul(d, C.G)
    pub = sec_compressed(P)
    wif = check_encode(b"\x80" + d.to_bytes(32, "big") + b"\x01")

    def address(point_d):
        Q = C.mul(point_d, C.G)
        sec = sec_compressed(Q)
        if addr_kind == "p2tr":
            return b32.address_from_witness(1, taproot_ref.tweak_pubkey(sec[1:], b"")[1])
        return {"p2pkh": b58.p2pkh, "p2wpkh": b32.p2wpkh, "p2wpkh-p2sh": b58.p2wpkh_p2sh}[addr_kind](sec)
    addr = address(d)
    sig = bip322.sign(msg, wif, addr)
    ok = bip322.verify(msg, addr, sig)
    text = sig.b64encode()
    ok_text = bip322.verify(msg, addr, text)
    if tamper == "msg":
        bad = bip322.verify(msg + b"!", addr, sig)
    elif tamper == "addr":
        bad = bip322.verify(msg, address(d % (C.n - 1) + 1), sig)
    else:
        other = bip322.sign(msg, check_encode(b"\x80" + (d % (C.n - 1) + 1).to_bytes(32, "big") + b"\x01"), address(d % (C.n - 1) + 1))
        bad = bip322.verify(msg, addr, other)
    return ok, ok_text, bad


def _gen_bip322(rng):
    from spec.ec_ref import SECP256K1 as C
    return dict(msg=rng.choice([b"", b"Hello World", bytes(rng.getrandbits(8) for _ in range(rng.randrange(1, 200)))]), d=rng.randrange(1, C.n),
                addr_kind=rng.choice(["p2pkh", "p2wpkh", "p2wpkh-p2sh", "p2tr"]), tamper=rng.choice(["msg", "addr", "other-key"]))


@contract("contracts.c_pipeline.bip322_run", gen=_gen_bip322, props="C10", n_quick=60, n_thorough=1500,
          rule="messages of 0..200 bytes x p2pkh / p2wpkh / p2sh-p2wpkh / p2tr addresses of random keys; altered message, another key's address, another key's signature")
class Bip322Bounded:
    """a BIP322 signature the library makes verifies for the address it was made for, as an object
    and as base64 text, and for no other message, address or key"""

    def post_verifies_only_for_its_own(result):
        ok, ok_text, bad = result
        return ok is True and ok_text is True and bad is False


# ---------------------------------------------------------------- BIP322 through a psbt (full / proof of funds)
def bip322_psbt_run(seed_owner, seed_other, purpose, index, lie):
    """the owner proves an address of theirs through the psbt flow (to_sign_psbt -> Updater ->
    signer -> finalize); another key tree builds the same to_sign with a PSBT_IN_WITNESS_UTXO or
    PSBT_IN_NON_WITNESS_UTXO that claims the challenge output is theirs, and signs it with their
    own key.  Returns the verdicts for the honest and for the forged proof"""
    from btclib import bip322
    from btclib.bip32.bip32 import rootxprv_from_seed
    from btclib.psbt_signer import export_account, request_signatures
    msg = b"proof for " + bytes([seed_owner, seed_other])
    owner = SoftwareSigner(rootxprv_from_seed(bytes([seed_owner]) * 32))
    other = SoftwareSigner(rootxprv_from_seed(bytes([seed_other]) * 32))
    owner_acct, _ = export_account(owner, f"m/{purpose}h/0h/0h")
    other_acct, _ = export_account(other, "m/84h/0h/0h")
    addr = owner_acct.address(index)
    honest = bip322.to_sign_psbt(msg, addr)
    honest = owner_acct.update_psbt_input(honest, 0, index)
    honest = psbt_mod.finalize(request_signatures(owner, honest))
    honest_ok = bip322.verify(msg, addr, bip322.Sig(honest).b64encode())
    spend = bip322.to_spend(msg, ScriptPubKey.from_address(addr).script)
    forged = Psbt.from_tx(bip322.to_sign(spend))
    claimed = TxOut(0, other_acct.script_pub_key(0))
    forged.inputs[0].witness_utxo = claimed
    if lie == "witness-utxo-only":
        forged.inputs[0].non_witness_utxo = None
    forged.signed_message = msg
    forged = other_acct.update_psbt_input(forged, 0, 0)
    forged, _ = psbt_mod.sign(forged, other)
    try:
        forged_sig = bip322.Sig(psbt_mod.finalize(forged)).b64encode()
    except BTClibValueError:
        return honest_ok, False
    return honest_ok, bip322.verify(msg, addr, forged_sig)


def _gen_bip322_psbt(rng):
    a, b = rng.sample(range(1, 200), 2)
    return dict(seed_owner=a, seed_other=b, purpose=rng.choice([44, 49, 84, 86]), index=rng.choice([0, 1, 3, 9]), lie=rng.choice(["witness-utxo", "witness-utxo-only"]))


@contract("contracts.c_pipeline.bip322_psbt_run", gen=_gen_bip322_psbt, props="C10", n_quick=40, n_thorough=600,
          rule="two distinct key trees x p2pkh / p2sh-p2wpkh / p2wpkh / p2tr accounts (BIP44/49/84/86) x indexes 0, 1, 3, 9; the forger's psbt claims the challenge output pays to the forger's own p2wpkh script")
class Bip322PsbtBounded:
    """the owner's proof, made with the library's psbt roles, verifies for the address; a proof
    signed by another key tree over a utxo that lies about the challenge script does not"""

    def post_owner_only(result):
        honest_ok, forged_ok = result
        return honest_ok is True and forged_ok is False
