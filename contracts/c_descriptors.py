"""Contracts: descriptors derive what they describe and recognise only their own (C14; the
taproot leaves also C12).  A sidecar driver parses a generated descriptor string and compares
everything it derives with keys derived by the independent BIP32 reference and scripts assembled
by hand."""
import hashlib

from btclib.descriptors import descriptors as D
from btclib.exceptions import BTClibRuntimeError, BTClibTypeError, BTClibValueError
from pyvc.api import contract, lemma
from spec import bip32_ref, taproot_ref
from spec.base58_ref import check_encode
from spec.ec_ref import SECP256K1 as C
from spec.ec_ref import point_from_sec

XPUB_VER = bytes.fromhex("0488b21e")
XPRV_VER = bytes.fromhex("0488ade4")

# BIP380 reference checksum (descriptor.cpp DescriptorChecksum / BIP380 Python)
INPUT_CHARSET = "0123456789()[],'/*abcdefgh@:$%{}IJKLMNOPQRSTUVWXYZ&+-.;<=>?!^_|~ijklmnopqrstuvwxyzABCDEFGH`#\"\\ "
CHECKSUM_CHARSET = "qpzry9x8gf2tvdw0s3jn54khce6mua7l"
GENERATOR = [0xF5DEE51989, 0xA9FDCA3312, 0x1BAB10E32D, 0x3706B1677A, 0x644D626FFD]


def ref_polymod(symbols):
    chk = 1
    for value in symbols:
        top = chk >> 35
        chk = (chk & 0x7FFFFFFFF) << 5 ^ value
        for i in range(5):
            chk ^= GENERATOR[i] if ((top >> i) & 1) else 0
    return chk


def ref_checksum(s):
    symbols = []
    groups = []
    for c in s:
        if c not in INPUT_CHARSET:
            return None
        v = INPUT_CHARSET.find(c)
        symbols.append(v & 31)
        groups.append(v >> 5)
        if len(groups) == 3:
            symbols.append(groups[0] * 9 + groups[1] * 3 + groups[2])
            groups = []
    if len(groups) == 1:
        symbols.append(groups[0])
    elif len(groups) == 2:
        symbols.append(groups[0] * 3 + groups[1])
    symbols += [0] * 8
    pm = ref_polymod(symbols) ^ 1
    return "".join(CHECKSUM_CHARSET[(pm >> (5 * (7 - i))) & 31] for i in range(8))


def h160(b):
    return bip32_ref.h160(b)


def _xpub(k):
    return check_encode(bip32_ref.serialize(dict(k, version=XPUB_VER, key=bip32_ref.pub_of(k))))


def _child_pub(k, path):
    return bip32_ref.pub_of(bip32_ref.derive(k, path))


def _push(b):
    return bytes([len(b)]) + b


def describe(kind, seeds, branch, index):
    """(descriptor string, expected scriptPubKey at `index`, taproot leaves or None)"""
    roots = [bip32_ref.master(bytes([s]) * 32, XPRV_VER) for s in seeds]
    accts = [bip32_ref.derive(r, [0x80000000 + 84, 0x80000000, 0x80000000]) for r in roots]
    xs = [_xpub(a) for a in accts]
    keys = [_child_pub(a, [branch, index]) for a in accts]
    ke = [f"{x}/{branch}/*" for x in xs]
    if kind == "pkh":
        return f"pkh({ke[0]})", b"\x76\xa9\x14" + h160(keys[0]) + b"\x88\xac", None
    if kind == "wpkh":
        return f"wpkh({ke[0]})", b"\x00\x14" + h160(keys[0]), None
    if kind == "sh-wpkh":
        redeem = b"\x00\x14" + h160(keys[0])
        return f"sh(wpkh({ke[0]}))", b"\xa9\x14" + h160(redeem) + b"\x87", None
    if kind in ("wsh-multi", "sh-multi", "wsh-sortedmulti"):
        ks = keys[:3]
        if "sorted" in kind:
            ks = sorted(ks)
        script = b"\x52" + b"".join(_push(k) for k in ks) + bytes([0x50 + len(ks)]) + b"\xae"
        name = "sortedmulti" if "sorted" in kind else "multi"
        inner = f"{name}(2,{','.join(ke[:3])})"
        if kind.startswith("wsh"):
            return f"wsh({inner})", b"\x00\x20" + hashlib.sha256(script).digest(), None
        return f"sh({inner})", b"\xa9\x14" + h160(script) + b"\x87", None
    if kind == "tr":
        r = taproot_ref.tweak_pubkey(keys[0][1:], b"")
        return f"tr({ke[0]})", b"\x51\x20" + r[1], None
    if kind == "tr-tree":
        l1 = _push(keys[1][1:]) + b"\xac"
        l2 = _push(keys[2][1:]) + b"\xac"
        tree = [[(0xC0, l1)], [(0xC0, l2)]]
        leaves, root = taproot_ref.tree_helper(tree)
        parity, q = taproot_ref.tweak_pubkey(keys[0][1:], root)
        return f"tr({ke[0]},{{pk({ke[1]}),pk({ke[2]})}})", b"\x51\x20" + q, (keys[0][1:], leaves, parity, q)
    raise LookupError(kind)


def descriptor_run(kind, seeds, branch, index, other_index):
    s, want, tap = describe(kind, seeds, branch, index)
    d = D.parse(D.add_checksum(s))
    got = d.script_pub_key(index).script
    reparsed = D.parse(str(d)) == d and D.parse(D.add_checksum(str(d))) == d
    chk = D.checksum(s)
    found = d.index_of(got, max(index, 12)) if index < 64 else index
    _, other, _ = describe(kind, [x + 1 for x in seeds], branch, other_index)
    not_mine = d.index_of(other, 12)
    leaves_ok = True
    if tap is not None:
        internal, leaves, parity, q = tap
        ls = d.taproot_leaf_scripts(index)
        want_ls = {bytes([0xC0 + parity]) + internal + path: (script, 0xC0) for (ver, script), path in leaves}
        leaves_ok = dict(ls) == want_ls and all(taproot_ref.control_verifies(q, sc, cb) for cb, (sc, _) in ls.items())
    return got, want, reparsed, chk, found, not_mine, leaves_ok


KINDS = ["pkh", "wpkh", "sh-wpkh", "wsh-multi", "sh-multi", "wsh-sortedmulti", "tr", "tr-tree"]


def _gen_desc(rng):
    return dict(kind=rng.choice(KINDS), seeds=[rng.randrange(1, 80) for _ in range(3)], branch=rng.choice([0, 1]),
                index=rng.choice([0, 1, 2, 5, 11, 11, 2**31 - 2, 2**31 - 1]), other_index=rng.randrange(0, 12))


@contract("contracts.c_descriptors.descriptor_run", gen=_gen_desc, props="C14 C12", n_quick=60, n_thorough=1500,
          rule="pkh, wpkh, sh(wpkh), wsh/sh multi, sortedmulti, tr and tr with a two-leaf tree over ranged account xpubs from the independent BIP32 reference; indexes 0..11 (index_of) and the last two unhardened indexes 2^31-2, 2^31-1 (derivation)")
class DescriptorBounded:
    def post_derives_what_it_describes(kind, seeds, branch, index, result):
        got, want, reparsed, chk, found, not_mine, leaves_ok = result
        s, _, _ = describe(kind, seeds, branch, index)
        return got == want and reparsed and chk == ref_checksum(s) and found == index and not_mine is None and leaves_ok


def _gen_corrupt(rng):
    g = _gen_desc(rng)
    g["index"] = 0
    s, _, _ = describe(g["kind"], g["seeds"], g["branch"], g["index"])
    full = D.add_checksum(s)
    k = rng.random()
    if k < 0.6:
        i = rng.randrange(len(full))
        c = rng.choice("0123456789abcdefghijklmnopqrstuvwxyz()/*,#")
        if c == full[i]:
            c = "q" if full[i] != "q" else "p"
        return dict(descriptor=full[:i] + c + full[i + 1:])
    if k < 0.66:
        return dict(descriptor=full[:-8])                             # the checksum cut off whole: a bare '#'
    if k < 0.75:
        return dict(descriptor=full[:-rng.randrange(1, 9)])          # checksum cut short, down to a bare '#'
    if k < 0.85:
        i = rng.randrange(len(full) + 1)
        return dict(descriptor=full[:i] + rng.choice("0123456789abcdefqpzry#") + full[i:])
    if k < 0.95:
        i = rng.randrange(len(full))
        if full[i] == "#":
            i -= 1
        return dict(descriptor=full[:i] + full[i + 1:])
    return dict(descriptor=full + rng.choice("q#p "))


@contract("btclib.descriptors.descriptors.parse", gen=_gen_corrupt, props="C14 C19", n_quick=150, n_thorough=4000,
          rule="every kind of descriptor above with one character substituted, inserted or deleted (body or checksum), the checksum cut short by 1..8 characters (a bare # included), a character appended")
class CorruptedDescriptorBounded:
    """a corrupted descriptor string is refused (BIP380: any single-character error is detected)"""

    def raises_BTClibValueError_if(descriptor):
        return True


@lemma("descriptors.polymod_is_bip380", types=dict(symbols="list[bv5;1..5]"), props="C14", bv=True)
def descsum_polymod(symbols):
    """the 40-bit polymod equals BIP380's bit-by-bit reference for all inputs of 1..5 symbols"""
    return getattr(D, "__descsum_polymod")(symbols) == ref_polymod(symbols)



# ---------------------------------------------------------------- a wallet with private keys
def wallet_positions(seed, shape, queries):
    """a DescriptorWallet built from an xprv descriptor whose steps below the key may be hardened;
    returns per (branch, index): the script it derives, the position it reports for that script
    and for its address, and the position of a foreign script"""
    from btclib.wallet import DescriptorWallet
    root = bip32_ref.master(bytes([seed]) * 32, XPRV_VER)
    xprv = check_encode(bip32_ref.serialize(root))
    text = {"plain": f"wpkh({xprv}/<0;1>/*)", "hard-wildcard": f"wpkh({xprv}/<0;1>/*h)", "hard-step": f"wpkh({xprv}/84h/0h/<0;1>/*)",
            "hard-both": f"pkh({xprv}/44h/<0;1>/*h)", "tr-hard": f"tr({xprv}/86h/0h/0h/<0;1>/*)"}[shape]
    w = DescriptorWallet.from_descriptor(D.add_checksum(text), prv_keys={})
    out = []
    for branch, index in queries:
        spk = w.script_pub_key(branch, index)
        out.append((spk.script, w.position_of(spk, 8), w.position_of(spk.address, 8)))
    foreign = w.position_of(b"\x00\x14" + bytes(range(20)), 8)
    return out, foreign


def _gen_wallet_positions(rng):
    return dict(seed=rng.randrange(1, 200), shape=rng.choice(["plain", "hard-wildcard", "hard-step", "hard-both", "tr-hard"]),
                queries=[(rng.choice([0, 1]), rng.randrange(0, 8)) for _ in range(rng.randrange(1, 4))])


@contract("contracts.c_descriptors.wallet_positions", gen=_gen_wallet_positions, props="C14", n_quick=40, n_thorough=800,
          rule="two-branch wallets over an xprv with no, one or two hardened steps below the key (hardened wildcard included), wpkh / pkh / tr; 1..3 positions in 0..7")
class WalletPositionBounded:
    """the wallet derives the script BIP32-by-hand derives, reports its own scripts at their
    position, and a foreign script as not its own"""

    def post_positions(seed, shape, queries, result):
        out, foreign = result
        H = bip32_ref.HARD
        root = bip32_ref.master(bytes([seed]) * 32, XPRV_VER)
        ok = foreign is None
        for (branch, index), (script, p1, p2) in zip(queries, out):
            path = {"plain": [branch, index], "hard-wildcard": [branch, H + index], "hard-step": [H + 84, H, branch, index],
                    "hard-both": [H + 44, branch, H + index], "tr-hard": [H + 86, H, H, branch, index]}[shape]
            pub = bip32_ref.pub_of(bip32_ref.derive(root, path))
            if shape == "hard-both":
                want = b"\x76\xa9\x14" + h160(pub) + b"\x88\xac"
            elif shape == "tr-hard":
                want = b"\x51\x20" + taproot_ref.tweak_pubkey(pub[1:], b"")[1]
            else:
                want = b"\x00\x14" + h160(pub)
            ok = ok and script == want and p1 == (branch, index) and p2 == (branch, index)
        return ok
