"""Contracts: the JSON form round-trips (C05): X.from_dict(x.to_dict()) == x, bounded."""
from btclib.script.script_pub_key import ScriptPubKey
from btclib.script.witness import Witness
from btclib.tx.out_point import OutPoint
from btclib.tx.tx import Tx
from btclib.tx.tx_in import TxIn
from btclib.tx.tx_out import TxOut
from pyvc.api import contract

NETS = ["mainnet", "testnet", "regtest", "signet", "testnet4"]


def _gen_txout(rng):
    spk = rng.choice([b"\x00\x14" + bytes(rng.getrandbits(8) for _ in range(20)), b"\x76\xa9\x14" + bytes(20) + b"\x88\xac", b"\x51", b"\x6a\x02ab"])
    return dict(self=TxOut(rng.choice([0, 1, 546, 10**8, 21 * 10**14]), ScriptPubKey(spk, rng.choice(NETS))))


@contract("btclib.tx.tx_out.TxOut.to_dict", gen=_gen_txout, props="C05", n_quick=300, n_thorough=5000,
          rule="outputs of every standard type on the five networks, boundary amounts")
class TxOutJsonBounded:
    def post_roundtrip(self, result):
        return TxOut.from_dict(result) == self


def _gen_tx(rng):
    from contracts.c_sighash import _rand_tx
    tx = _rand_tx(rng)
    if rng.random() < 0.5:
        vout = [TxOut(o.value, ScriptPubKey(o.script_pub_key.script, rng.choice(NETS), check_validity=False)) for o in tx.vout]
        tx = Tx(tx.version, tx.lock_time, tx.vin, vout)
    return dict(self=tx)


@contract("btclib.tx.tx.Tx.to_dict", gen=_gen_tx, props="C05", n_quick=300, n_thorough=5000)
class TxJsonBounded:
    def post_roundtrip_and_ids(self, result):
        import hashlib
        back = Tx.from_dict(result)
        ser = self.serialize(include_witness=False)
        txid = hashlib.sha256(hashlib.sha256(ser).digest()).digest()[::-1].hex()
        return back == self and result["txid"] == txid and result["size"] == len(self.serialize(include_witness=True))


def _gen_header(rng):
    from datetime import datetime, timezone
    from btclib.block.block_header import BlockHeader
    return dict(self=BlockHeader(rng.choice([1, 2, 0x20000000, 0x7FFFFFFF]), bytes(rng.getrandbits(8) for _ in range(32)), bytes(rng.getrandbits(8) for _ in range(32)),
                                 datetime.fromtimestamp(rng.choice([1231006505, 1700000000, 0xFFFFFFFF, rng.randrange(1231006505, 2**32)]), timezone.utc),
                                 bytes.fromhex(rng.choice(["1d00ffff", "207fffff", "170b8c8b"])), rng.getrandbits(32), check_validity=False))


@contract("btclib.block.block_header.BlockHeader.serialize", gen=_gen_header, props="C05", n_quick=300, n_thorough=5000)
class BlockHeaderBounded:
    def post_roundtrip(self, result):
        from btclib.block.block_header import BlockHeader
        back = BlockHeader.parse(result, check_validity=False)
        return len(result) == 80 and back == self and back.serialize(check_validity=False) == result and BlockHeader.from_dict(self.to_dict(check_validity=False), check_validity=False) == self


def _gen_psbt_json(rng):
    from contracts.c_hostile import corpus
    from btclib.psbt.psbt import Psbt
    return dict(self=Psbt.parse(rng.choice(corpus()["Psbt.parse"])))


@contract("btclib.psbt.psbt.Psbt.to_dict", gen=_gen_psbt_json, props="C05", n_quick=88, n_thorough=880,
          rule="the 44 valid PSBTs of the BIP174/370/371/373 vectors vendored in the repository (taproot key paths, MuSig2 fields, v0 and v2)")
class PsbtJsonBounded:
    """the JSON form, through json.dumps / json.loads, reads back as the same PSBT, input by
    input and output by output"""

    def post_roundtrip(self, result):
        import json
        from btclib.psbt.psbt import Psbt
        from btclib.psbt.psbt_in import PsbtIn
        from btclib.psbt.psbt_out import PsbtOut
        back = Psbt.from_dict(json.loads(json.dumps(result)))
        return (back == self and back.serialize() == self.serialize()
                and all(PsbtIn.from_dict(json.loads(json.dumps(i.to_dict()))) == i for i in self.inputs)
                and all(PsbtOut.from_dict(json.loads(json.dumps(o.to_dict()))) == o for o in self.outputs))
