"""Contracts: PSBT combine as a lossless, order-independent, idempotent merge that never
aliases its operands (C11).  Deductive: the two merge rules on abstract field values.
Bounded: `combine` / `to_v0` / `to_v2` on generated PSBTs with every safely settable field
distributed over k copies."""
import copy
import hashlib
import random

from btclib.exceptions import BTClibTypeError, BTClibValueError
from btclib.psbt import psbt as psbt_mod
from btclib.psbt.psbt import Psbt, combine
from pyvc.api import assume, contract, lemma


class Box:
    """a map with one field, for the merge rules (the real functions only use getattr/setattr)"""

    def __init__(self, x):
        self.x = x


# ---------------------------------------------------------------- deductive: merge rules
@lemma("psbt.merge_optional_is_lossless", types=dict(a="opt[int]", b="opt[int]"), props="C11")
def merge_optional(a, b):
    """'present iff not None': the result has the field iff either operand has it, with an
    operand's value (0 included); operands that agree merge to that value; idempotent"""
    assume(a is None or b is None or a == b)            # non-conflicting operands
    out = Box(a)
    psbt_mod._combine_optional_field(Box(b), out, "x")
    r1 = out.x
    out2 = Box(b)
    psbt_mod._combine_optional_field(Box(a), out2, "x")
    lossless = (r1 is None) == (a is None and b is None) and (a is None or r1 == a) and (b is None or r1 == b)
    commutative = (r1 is None and out2.x is None) or r1 == out2.x
    return lossless and commutative


@lemma("psbt.merge_bytes_field_is_lossless", types=dict(a="oneof[const(b'')|bytes]", b="oneof[const(b'')|bytes]"), props="C11")
def merge_bytes(a, b):
    """scripts and keys: empty means absent"""
    assume(len(a) == 0 or len(b) == 0 or a == b)
    out = Box(a)
    psbt_mod._combine_field(Box(b), out, "x")
    out2 = Box(b)
    psbt_mod._combine_field(Box(a), out2, "x")
    return (len(a) == 0 or out.x == a) and (len(b) == 0 or out.x == b) and out.x == out2.x


@lemma("psbt.merge_dict_field_is_union", types=dict(va="int", vb="int", vc="int", ka="bool", kb="bool", kc="bool", kd="bool"), props="C11")
def merge_dict(va, vb, vc, ka, kb, kc, kd):
    """maps: the union of the key-value pairs (keys K1..K3; operand a may hold K1,K2; b K2,K3)"""
    a = {}
    b = {}
    if ka:
        a[b"K1"] = va
    if kb:
        a[b"K2"] = vb
    if kc:
        b[b"K2"] = vb
    if kd:
        b[b"K3"] = vc
    out = Box(dict(a))
    psbt_mod._combine_field(Box(dict(b)), out, "x")
    ok = True
    for k in a:
        ok = ok and k in out.x and out.x[k] == a[k]
    for k in b:
        ok = ok and k in out.x and out.x[k] == b[k]
    for k in out.x:
        ok = ok and (k in a or k in b)
    return ok


# ---------------------------------------------------------------- bounded: combine on psbts
def _base_psbt(rng):
    from contracts.c_sighash import _rand_tx
    from btclib.tx.tx_in import TxIn
    from btclib.tx.tx import Tx
    tx = _rand_tx(rng)
    from btclib.tx.tx_out import TxOut
    vout = [o if o.script_pub_key.script else TxOut(o.value, b"\x51") for o in tx.vout]
    tx = Tx(2, tx.lock_time if tx.lock_time < 500000000 else 0, [TxIn(i.prev_out, b"", i.sequence) for i in tx.vin], vout)
    p = Psbt.from_tx(tx)
    if rng.random() < 0.5:
        p = p.to_v2()
    return p


def _candidates(rng, p):
    """(where, index, field, value): settable without breaking validity (tested below)"""
    out = []
    for i in range(len(p.inputs)):
        pre = bytes(rng.getrandbits(8) for _ in range(5))
        out += [("in", i, "unknown", {b"\xfa" + bytes([rng.getrandbits(8)]): bytes(rng.getrandbits(8) for _ in range(3))}),
                ("in", i, "unknown", {b"\xfb" + bytes([rng.getrandbits(8)]): b""}),
                ("in", i, "sig_hash_type", rng.choice([0, 1, 2, 3, 0x81, 0x83])),
                ("in", i, "redeem_script", b"\x51"),
                ("in", i, "witness_script", b"\x51\x52"),
                ("in", i, "sha256_preimages", {hashlib.sha256(pre).digest(): pre}),
                ("in", i, "hash256_preimages", {hashlib.sha256(hashlib.sha256(pre).digest()).digest(): pre}),
                ("in", i, "taproot_merkle_root", bytes(rng.getrandbits(8) for _ in range(32)))]
    for i in range(len(p.outputs)):
        if p.version == 2 and rng.random() < 0.5:
            from spec.ec_ref import SECP256K1 as C
            from spec.ec_ref import sec_compressed
            info = sec_compressed(C.mul(rng.randrange(2, 99), C.G)) + sec_compressed(C.mul(rng.randrange(2, 99), C.G))
            out += [("out", i, "sp_v0_info", info), ("out", i, "sp_v0_label", rng.choice([0, 0, 1, 7]))]
        out += [("out", i, "unknown", {b"\xfc" + bytes([rng.getrandbits(8)]): b"x"}),
                ("out", i, "redeem_script", b"\x52"),
                ("out", i, "witness_script", b"\x53")]
    out += [("glob", 0, "unknown", {b"\xfd" + bytes([rng.getrandbits(8)]): b"g"})]
    return out


def _target(p, where, i):
    return p.inputs[i] if where == "in" else p.outputs[i] if where == "out" else p


def _apply(p, a):
    where, i, field, value = a
    t = _target(p, where, i)
    if isinstance(value, dict):
        getattr(t, field).update(value)
    else:
        setattr(t, field, value)


def _gen_combine(rng):
    base = _base_psbt(rng)
    kept = []
    for a in _candidates(rng, base):
        if rng.random() < 0.7:
            q = copy.deepcopy(base)
            try:
                if a[2] == "sp_v0_label":
                    for b in kept:
                        if b[2] == "sp_v0_info" and b[1] == a[1]:
                            _apply(q, b)
                _apply(q, a)
                q.assert_valid()
                Psbt.parse(q.serialize())
            except Exception:  # noqa: BLE001
                continue
            kept.append(a)
    k = rng.choice([1, 2, 3, 4])
    copies = [copy.deepcopy(base) for _ in range(k)]
    for a in kept:
        if a[2] == "sp_v0_info":
            for c in copies:
                _apply(c, a)
            continue
        if a[2] == "sp_v0_label" and not any(b[2] == "sp_v0_info" and b[1] == a[1] for b in kept):
            continue
        owners = rng.sample(range(k), rng.choice([1, 1, min(2, k)]))
        for o in owners:
            _apply(copies[o], a)
    for c in copies:
        c.assert_valid()
    return dict(psbts=copies, _assignments=kept)


def _has(p, a):
    where, i, field, value = a
    cur = getattr(_target(p, where, i), field)
    if isinstance(value, dict):
        return all(k in cur and cur[k] == v for k, v in value.items())
    return cur == value


@contract("btclib.psbt.psbt.combine", gen=_gen_combine, props="C11", n_quick=150, n_thorough=3000,
          rule="PSBT v0/v2 built from random transactions; unknown fields, sighash types (0 included), scripts, preimages, lock-time fields distributed over 1..4 copies")
class CombineBounded:
    def post_lossless(psbts, _assignments, result):
        held = [a for a in _assignments if any(_has(p, a) for p in psbts)]
        return all(_has(result, a) for a in held)

    def post_order_and_grouping(psbts, result):
        rev = combine(list(reversed(psbts)))
        grouped = combine([combine(psbts[:1]), combine(psbts[1:])]) if len(psbts) > 1 else result
        return rev.serialize() == result.serialize() and grouped.serialize() == result.serialize()

    def post_idempotent(psbts, result):
        return combine([result, result]).serialize() == result.serialize()

    def post_operands_untouched(psbts, psbts0, result):
        before = [p.serialize() for p in psbts0]
        # the result must not share containers with an operand
        result.unknown[b"\xfe\x01"] = b"probe"
        for i in result.inputs:
            i.unknown[b"\xfe\x02"] = b"probe"
        return [p.serialize() for p in psbts] == before


def _gen_refuse(rng):
    a, b = _base_psbt(rng), _base_psbt(rng)
    c = copy.deepcopy(a)
    kind = rng.choice(["other_tx", "version", "sequence"] if a.version == 0 else ["other_tx", "version"])
    if kind == "other_tx":
        other = b
    elif kind == "version":
        other = c.to_v2() if c.version == 0 else c.to_v0()
    else:
        other = c
        if other.version == 0:
            other = Psbt.from_tx(_bump_sequence(other.tx))
        else:
            other.inputs[0].sequence = (other.inputs[0].sequence or 0) ^ 1
    return dict(psbts=[a, other])


def _bump_sequence(tx):
    tx = copy.deepcopy(tx)
    tx.vin[0].sequence ^= 1
    return tx


@contract("btclib.psbt.psbt.combine", gen=_gen_refuse, props="C11", n_quick=120, n_thorough=2000)
class CombineRefusesBounded:
    """PSBTs of different transactions (a differing sequence included) or versions are refused"""

    def raises_BTClibValueError(psbts):
        return True


def _gen_convert(rng):
    g = _gen_combine(rng)
    return dict(self=combine(g["psbts"]))


@contract("btclib.psbt.psbt.Psbt.to_v0", gen=_gen_convert, props="C11", n_quick=120, n_thorough=2000)
class ToV0Bounded:
    def raises_BTClibValueError(self):
        # a version 0 psbt cannot carry a silent-payment output (BIP375 fields are v2 only)
        return any(o.sp_v0_info for o in self.outputs)

    def post_same_tx_fresh_object(self, self0, result):
        before = self0.serialize()
        same_tx = result.tx.serialize(include_witness=False) == self0.tx.serialize(include_witness=False)
        result.unknown[b"\xfe\x01"] = b"probe"
        for i in result.inputs:
            i.unknown[b"\xfe\x02"] = b"probe"
        for o in result.outputs:
            o.unknown[b"\xfe\x03"] = b"probe"
        return same_tx and self.serialize() == before


@contract("btclib.psbt.psbt.Psbt.to_v2", gen=_gen_convert, props="C11", n_quick=120, n_thorough=2000)
class ToV2Bounded:
    def post_same_tx_fresh_object(self, self0, result):
        before = self0.serialize()
        same_tx = result.tx.serialize(include_witness=False) == self0.tx.serialize(include_witness=False)
        result.unknown[b"\xfe\x01"] = b"probe"
        for i in result.inputs:
            i.unknown[b"\xfe\x02"] = b"probe"
        for o in result.outputs:
            o.unknown[b"\xfe\x03"] = b"probe"
        return same_tx and self.serialize() == before


# ---------------------------------------------------------------- combine covers every field
# fields that identify the transaction (compared through the ids) or are derived, not merged
_IDENTITY = {"previous_tx_id", "output_index", "amount", "script_pub_key", "tx_version", "inputs", "outputs", "version", "tx_modifiable"}


def _gen_one(rng):
    return dict(psbts=[_base_psbt(rng)])


@contract("btclib.psbt.psbt.combine", gen=_gen_one, props="C11", n_quick=3, n_thorough=3,
          rule="ground obligation on the live dataclasses: every field of PsbtIn, PsbtOut and Psbt is named by a merge rule in combine")
class CombineFieldsCompleteGround:
    def post_every_field_is_merged(psbts, result):
        import dataclasses
        import inspect
        from btclib.psbt.psbt_in import PsbtIn
        from btclib.psbt.psbt_out import PsbtOut
        src = inspect.getsource(combine) + inspect.getsource(psbt_mod._combine_musig2_participants) + inspect.getsource(psbt_mod._combined_tx_modifiable)
        missing = [f.name for cls in (PsbtIn, PsbtOut, Psbt) for f in dataclasses.fields(cls)
                   if f.name not in _IDENTITY and ('"' + f.name + '"') not in src and ("." + f.name) not in src]
        return missing == []


# ---------------------------------------------------------------- a signer's answer
# BIP174/371/373: what a Signer may add
_SIGNER_MAY_ADD = {"partial_sigs", "taproot_key_spend_signature", "taproot_script_spend_signatures", "musig2_pub_nonces", "musig2_partial_sigs"}


def _gen_tamper(rng):
    import dataclasses
    g = _gen_combine(rng)
    request = combine(g["psbts"])
    returned = copy.deepcopy(request)
    where = rng.choice(["in", "out"])
    target = rng.choice(returned.inputs if where == "in" else returned.outputs)
    fields = [f.name for f in dataclasses.fields(type(target)) if f.name not in _SIGNER_MAY_ADD]
    name = rng.choice(fields)
    cur = getattr(target, name)
    if isinstance(cur, dict):
        from spec.ec_ref import SECP256K1 as C
        from spec.ec_ref import sec_compressed
        if name == "unknown":
            cur[b"\xf9" + bytes([rng.getrandbits(8)])] = b"\x01"
        elif name == "sha256_preimages":
            cur[hashlib.sha256(b"tamper").digest()] = b"tamper"
        elif name == "musig2_participant_pub_keys":
            ks = [sec_compressed(C.mul(k, C.G)) for k in (rng.randrange(2, 50), rng.randrange(50, 99))]
            agg = sec_compressed(C.mul(rng.randrange(100, 200), C.G))
            if cur and rng.random() < 0.5:
                cur.pop(next(iter(cur)))
            else:
                cur[agg] = ks
        elif cur:
            k0 = next(iter(cur))
            cur[k0[:-1] + bytes([k0[-1] ^ 1])] = cur[k0]
        else:
            raise ValueError("skip")
    elif isinstance(cur, bytes):
        setattr(target, name, cur + b"\x51")
    elif isinstance(cur, int) and not isinstance(cur, bool):
        setattr(target, name, cur ^ 1)
    elif cur is None and name in ("non_witness_utxo", "witness_utxo", "final_script_witness", "taproot_tree", "sp_v0_info"):
        raise ValueError("skip")        # object-valued fields: not tampered with a scalar
    elif cur is None:
        setattr(target, name, 1 if "lock" in name or name in ("sequence", "sig_hash_type", "output_index", "amount", "sp_v0_label") else b"\x51" * 32)
    else:
        raise ValueError("skip")
    return dict(request=request, returned=returned, _field=name)


@contract("btclib.psbt.psbt.assert_signatures_only", gen=_gen_tamper, props="C11", n_quick=300, n_thorough=5000,
          rule="every single-field tampering (each non-signature field of the live PsbtIn / PsbtOut dataclasses) of a signer's answer")
class SignaturesOnlyBounded:
    """an answer that differs from the request in anything but added signatures is refused"""

    def raises_BTClibValueError_if(request, returned):
        return True

    def raises_BTClibTypeError_only_if(request, returned):
        return True


# ---------------------------------------------------------------- C05: PSBT re-serialization
def _gen_psbt_fields(rng):
    g = _gen_combine(rng)
    p = combine(g["psbts"])
    if p.version == 2:
        for i in p.inputs:
            c = rng.random()
            if c < 0.4:
                i.sequence = rng.choice([0, 0, 1, 0xFFFFFFFE, 0xFFFFFFFF])
            if c > 0.7:
                i.required_height_lock_time = rng.choice([1, 499999999])
        try:
            p.assert_valid()
        except Exception:  # noqa: BLE001
            raise ValueError("skip")
    return dict(self=p)


@contract("btclib.psbt.psbt.Psbt.serialize", gen=_gen_psbt_fields, props="C05 C11", n_quick=200, n_thorough=4000,
          rule="PSBT v0/v2 with unknown fields, sighash types and sequences equal to 0, scripts, preimages, silent-payment info and label 0")
class PsbtFixedPointBounded:
    """re-serializing a parsed PSBT is a fixed point that keeps every key-value pair; a valid
    object parses back to an equal object"""

    def post_roundtrip(self, result):
        back = Psbt.parse(result)
        return back == self and back.serialize() == result

    def post_json_roundtrip(self):
        return Psbt.from_dict(self.to_dict()) == self
