"""Contracts: scalar / double / multi-scalar multiplication return the group law's point;
off-curve points and malformed curves are refused (C01, C04 arms).  Bounded stand-ins against
spec/ec_ref.py: exhaustive-style sampling on small curves (all algorithms), boundary scalars on
secp256k1 on both arms."""
from btclib.alias import INF, INFJ
from btclib.curves import curve as curve_mod
from btclib.curves import curve_group as cg
from btclib.curves.curve import CURVES, Curve, double_mult_var, mult, multi_mult_var, secp256k1
from btclib.exceptions import BTClibRuntimeError, BTClibTypeError, BTClibValueError
from pyvc.api import contract
from spec import ecdsa_ref
from spec.ec_ref import RefCurve

def _small_curves():
    """prime-order toy curves found by brute force with the reference arithmetic"""
    import math
    out = []
    for p, want in ((13, 2), (17, 2), (19, 2), (23, 1), (29, 1), (263, 1)):
        found = 0
        for a in range(p):
            for b in range(1, p):
                if (4 * a**3 + 27 * b * b) % p == 0:
                    continue
                pts = [(x, y) for x in range(p) for y in range(p) if (y * y - x**3 - a * x - b) % p == 0]
                N = len(pts) + 1
                if N < 5 or N == p or any(N % d == 0 for d in range(2, math.isqrt(N) + 1)):
                    continue
                G = next(P for P in pts if P[1] != 0)
                try:
                    out.append(Curve(p, a, b, G, N, 1, False))
                    found += 1
                except BTClibValueError:
                    continue
                if found >= want:
                    break
            if found >= want:
                break
    return out


SMALL = _small_curves()


def _aff(P):
    return None if (P is None) else (P[0], P[1])


def _to_ref(Q):
    return None if Q[1] == 0 else (Q[0], Q[1])


def _from_ref(P):
    return INF if P is None else P


def _rand_curve(rng):
    c = rng.random()
    if c < 0.55:
        return rng.choice(SMALL)
    if c < 0.85:
        return secp256k1
    return CURVES[rng.choice(["secp112r1", "secp160k1", "secp256r1", "secp112r2"])]


def _rand_point(rng, ec, C):
    if rng.random() < 0.12:
        return INF
    k = rng.randrange(1, ec.n)
    return _from_ref(C.mul(k, C.G))


def _rand_scalar(rng, n):
    return rng.choice([0, 1, 2, n - 1, n, n + 1, 2 * n, -1, -n, 3 * n + 2, rng.randrange(-2 * n, 3 * n), rng.randrange(0, n)])


def _off_curve(rng, ec):
    while True:
        x, y = rng.randrange(ec.p), rng.randrange(1, ec.p)
        if not ec.is_on_curve((x, y)):
            return (x, y)


def _gen_mult(rng):
    ec = _rand_curve(rng)
    C = ecdsa_ref.curve_of(ec)
    Q = _rand_point(rng, ec, C) if rng.random() < 0.85 else _off_curve(rng, ec)
    if rng.random() < 0.2:
        Q = None
    return dict(m_int=_rand_scalar(rng, ec.n), Q=Q, ec=ec)


@contract("btclib.curves.curve.mult", gen=_gen_mult, props="C01 C04", both_arms=True, n_quick=600, n_thorough=20000,
          rule="six toy curves, four catalogued curves, secp256k1; scalars 0, 1, n-1, n, n+1, 2n, negative, beyond n; points incl. infinity, the generator default, off-curve points")
class MultBounded:
    def raises_BTClibValueError(m_int, Q, ec):
        return Q is not None and Q[1] != 0 and not ecdsa_ref.curve_of(ec).on_curve(Q)

    def post_group_law(m_int, Q, ec, result):
        C = ecdsa_ref.curve_of(ec)
        P = C.G if Q is None else _to_ref(Q)
        return tuple(result) == tuple(_from_ref(C.mul(m_int % ec.n, P)))


def _gen_double(rng):
    ec = _rand_curve(rng)
    C = ecdsa_ref.curve_of(ec)
    H = _rand_point(rng, ec, C) if rng.random() < 0.9 else _off_curve(rng, ec)
    Q = _rand_point(rng, ec, C) if rng.random() < 0.9 else _off_curve(rng, ec)
    u, v = _rand_scalar(rng, ec.n), _rand_scalar(rng, ec.n)
    if rng.random() < 0.15 and H[1] and ec.is_on_curve(H):
        Q, v = H, (-u) % ec.n            # cancelling sum
    return dict(u=u, H=H, v=v, Q=Q, ec=ec)


@contract("btclib.curves.curve.double_mult_var", gen=_gen_double, props="C01 C04", both_arms=True, n_quick=500, n_thorough=15000)
class DoubleMultBounded:
    def raises_BTClibValueError(u, H, v, Q, ec):
        C = ecdsa_ref.curve_of(ec)
        return any(P[1] != 0 and not C.on_curve(P) for P in (H, Q))

    def post_group_law(u, H, v, Q, ec, result):
        C = ecdsa_ref.curve_of(ec)
        want = C.add(C.mul(u % ec.n, _to_ref(H)), C.mul(v % ec.n, _to_ref(Q)))
        return tuple(result) == tuple(_from_ref(want))


def _gen_multi(rng):
    ec = _rand_curve(rng)
    C = ecdsa_ref.curve_of(ec)
    k = rng.choice([2, 2, 3, 5, 8, 55, 56, 57, 60]) if ec.p < 2**40 else rng.choice([2, 3, 5, 8])
    pts = [_rand_point(rng, ec, C) for _ in range(k)]
    scs = [_rand_scalar(rng, ec.n) for _ in range(k)]
    if rng.random() < 0.25:
        i = rng.randrange(k)
        pts[i] = _off_curve(rng, ec)
        if rng.random() < 0.6:
            scs[i] = rng.choice([0, ec.n, 2 * ec.n, -ec.n])       # an off-curve point paired with a zero scalar
    return dict(scalars=scs, points=pts, ec=ec)


@contract("btclib.curves.curve.multi_mult_var", gen=_gen_multi, props="C01 C04", both_arms=True, n_quick=400, n_thorough=10000,
          rule="2..60 terms (both sides of the wNAF / Bos-Coster switch on the toy curves), zero scalars, infinity, cancelling terms, an off-curve point with a zero / order scalar")
class MultiMultBounded:
    def raises_BTClibValueError(scalars, points, ec):
        C = ecdsa_ref.curve_of(ec)
        return any(P[1] != 0 and not C.on_curve(P) for P in points)

    def post_group_law(scalars, points, ec, result):
        C = ecdsa_ref.curve_of(ec)
        acc = None
        for s, P in zip(scalars, points):
            acc = C.add(acc, C.mul(s % ec.n, _to_ref(P)))
        return tuple(result) == tuple(_from_ref(acc))


ALGOS = ["_mult_recursive_aff_var", "_mult_recursive_jac_var", "_mult_aff_var", "_mult_jac_var", "_mult_mont_ladder_var", "_mult_base_3_var",
         "_mult_regular_window", "_mult"]


def _gen_algo(rng):
    ec = rng.choice(SMALL + [secp256k1, CURVES["secp112r2"]])
    C = ecdsa_ref.curve_of(ec)
    Q = _rand_point(rng, ec, C)
    m = rng.choice([0, 1, 2, 3, ec.n - 1, ec.n, ec.n + 1, rng.randrange(0, 2 * ec.n)])
    return dict(name=rng.choice(ALGOS), m=m, Q=Q, ec=ec)


def run_algo(name, m, Q, ec):
    f = getattr(cg, name)
    if "aff" in name:
        return tuple(f(m, Q, ec))
    QJ = cg._jac_from_aff(Q)
    if name == "_mult_regular_window":
        return tuple(ec.aff_from_jac_var(f(m, QJ, ec, 4)))
    return tuple(ec.aff_from_jac_var(f(m, QJ, ec)))


@contract("contracts.c_curve.run_algo", gen=_gen_algo, props="C01", n_quick=800, n_thorough=30000,
          rule="each internal multiplication algorithm of curve_group (recursive, double-and-add, ladder, base 3, regular window) on toy curves, secp112r2 and secp256k1; scalars 0..2n")
class AlgorithmsBounded:
    def post_group_law(name, m, Q, ec, result):
        C = ecdsa_ref.curve_of(ec)
        return result == tuple(_from_ref(C.mul(m, _to_ref(Q))))


# ---------------------------------------------------------------- malformed curves are refused
def _order(C, P):
    k, R = 1, P
    while R is not None:
        R = C.add(R, P)
        k += 1
    return k


def _is_prime(n):
    import math
    return n >= 2 and all(n % d for d in range(2, math.isqrt(n) + 1))


def _embedding_degree_below_100(p, n):
    return any(pow(p, k, n) == 1 for k in range(1, 100))


def _gen_curve_params(rng):
    import math
    while True:
        p = rng.choice([11, 13, 17, 19, 23, 29, 31, 37, 41, 43, 47, 53, 59, 61, 67, 71, 73, 79, 83, 89, 97, 101, 103, 107, 109, 113, 127, 131, 137, 139, 149, 151, 157, 163, 167, 173, 179, 181, 191, 193, 197, 199, 211, 223, 227, 229, 233, 239, 241, 251, 257, 263])
        a, b = rng.randrange(p), rng.randrange(p)
        if (4 * a**3 + 27 * b * b) % p == 0 and rng.random() < 0.8:
            continue
        C0 = RefCurve(p, a, b, None, 0)
        pts = [(x, y) for x in range(p) for y in range(p) if (y * y - x**3 - a * x - b) % p == 0]
        if not pts:
            continue
        G = rng.choice(pts)
        n = _order(C0, G)
        N = len(pts) + 1
        break
    h = N // n
    params = dict(p=p, a=a, b=b, G=G, n=n, cofactor=h)
    c = rng.random()
    if c < 0.12:
        params["n"] = rng.choice([n + 1, n - 1, 2 * n, N])
    elif c < 0.2:
        params["cofactor"] = h + rng.choice([1, -1])
    elif c < 0.28:
        params["G"] = (G[0], (G[1] + 1) % p)
    elif c < 0.33:
        params["b"] = (b + 1) % p
    elif c < 0.38:
        params["p"] = p + 1
    elif c < 0.43:
        params["a"] = rng.choice([-1, p, a])
    return dict(params, weakness_check=rng.random() < 0.6, _N=N, _true_order=n)


def _curve_is_well_formed(p, a, b, G, n, cofactor, weakness_check):
    import math
    if not (_is_prime(p) and p % 2 == 1):
        return False
    if not (0 <= a < p and 0 <= b < p) or (4 * a**3 + 27 * b * b) % p == 0:
        return False
    C = RefCurve(p, a, b, G, n)
    if not (isinstance(G, tuple) and 0 <= G[0] < p and 0 < G[1] < p and C.on_curve(G)):
        return False
    if not _is_prime(n) or n % 2 == 0:
        return False
    delta = math.isqrt(4 * p)
    if cofactor < 2 and not (p + 1 - delta <= n <= p + 1 + delta):
        return False
    if C.mul(n, G) is not None:
        return False
    if cofactor != (1 + delta + p) // n:
        return False
    if n == p:
        return False
    return not (weakness_check and _embedding_degree_below_100(p, n))


@contract("btclib.curves.curve.Curve", gen=_gen_curve_params, props="C01 C19", n_quick=300, n_thorough=8000,
          rule="every (a, b) over primes below 264 with a random generator of exact order, and single-parameter corruptions (order, cofactor, generator, b, p, a); MOV check on and off")
class CurveCtorBounded:
    """SEC 1 v2 3.1.1.2.1: a malformed curve is refused, a well-formed one accepted"""

    def raises_BTClibValueError(p, a, b, G, n, cofactor, weakness_check):
        return not _curve_is_well_formed(p, a, b, G, n, cofactor, weakness_check)


def _gen_mov(rng):
    n = rng.choice([p for p in range(101, 4000) if _is_prime(p)])
    c = rng.random()
    if c < 0.5:
        # aim at an embedding degree near the bound: p a primitive d-th root of unity mod n, d | n-1
        ds = [d for d in range(90, 110) if (n - 1) % d == 0]
        if ds:
            d = rng.choice(ds)
            g = next(g for g in range(2, n) if all(pow(g, (n - 1) // q, n) != 1 for q in _prime_factors(n - 1)))
            p = pow(g, (n - 1) // d, n)
            return dict(p=p + n * rng.randrange(0, 3), n=n)
    return dict(p=rng.randrange(2, 5 * n), n=n)


def _prime_factors(m):
    out, d = set(), 2
    while d * d <= m:
        while m % d == 0:
            out.add(d)
            m //= d
        d += 1
    if m > 1:
        out.add(m)
    return out


@contract("btclib.curves.curve._assert_mov_resistant", gen=_gen_mov, props="C01", n_quick=2000, n_thorough=40000,
          rule="prime orders below 4000, field characteristics with multiplicative order mod n steered to 90..109")
class MovBounded:
    """refused exactly when the embedding degree is below 100"""

    def raises_BTClibValueError(p, n):
        return _embedding_degree_below_100(p, n)
