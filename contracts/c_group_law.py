"""Contracts: the Jacobian kernels of CurveGroup compute the chord-and-tangent law (C01).

Field view (DESIGN 3.5): the generic chord case of add_jac and the tangent case of
_double_jac_helper are Lean theorems over ZMod p whose code side (returned coordinates, path
condition) is generated from the real AST; the selection cases (an operand at infinity,
opposite points) are integer obligations for z3.  lean/Preamble.lean (proved once) identifies
the chord and tangent formulas below with addition in Mathlib's group of the curve."""
from btclib.curves.curve_group import CurveGroup
from pyvc.api import contract, shape


@shape("btclib.curves.curve_group.CurveGroup", fields=dict(p="int", _a="int", _b="int", _a_is_zero="bool", _a_is_minus_3="bool",
                                                             _stand_in_q="tuple[int,int,int]", _stand_in_r="tuple[int,int,int]"))
class CurveGroupShape:
    def inv(self):
        p = self.p
        return (p >= 5 and 0 <= self._a < p and 0 <= self._b < p
                and self._a_is_zero == (self._a == 0) and self._a_is_minus_3 == ((self._a + 3) % p == 0)
                and all(0 <= c < p for c in self._stand_in_q) and all(0 <= c < p for c in self._stand_in_r)
                and self._stand_in_q[2] != 0 and self._stand_in_r[2] != 0)

    def build(p, _a, _b, _a_is_zero, _a_is_minus_3, _stand_in_q, _stand_in_r):
        return CurveGroup(p, _a, _b)


def canon(P, p):
    return all(0 <= c < p for c in P)


JAC = "tuple[int,int,int]"
GENERIC_TACTIC = """simp only [] at *
field_simp
ring"""

# x1 = X1/Z1^2 ... the affine point a Jacobian triple stands for; chord through two points
CHORD_POST = """(res_2 ≠ 0) ∧
  (let x1 := Q_0 / Q_2^2; let y1 := Q_1 / Q_2^3; let x2 := R_0 / R_2^2; let y2 := R_1 / R_2^3
   let lam := (y2 - y1) / (x2 - x1); let x3 := lam^2 - x1 - x2; let y3 := lam * (x1 - x3) - y1
   res_0 = x3 * res_2^2 ∧ res_1 = y3 * res_2^3)"""

CHORD_TACTIC = """have hz1 : Q_2 ≠ 0 := by ne_from_hyps
have hz2 : R_2 ≠ 0 := by ne_from_hyps
have hV : R_0 * (Q_2 * Q_2) - Q_0 * (R_2 * R_2) ≠ 0 := by ne_from_hyps
obtain ⟨x1, hx1⟩ : ∃ x1, Q_0 = x1 * Q_2^2 := ⟨Q_0 / Q_2^2, by field_simp⟩
obtain ⟨y1, hy1⟩ : ∃ y1, Q_1 = y1 * Q_2^3 := ⟨Q_1 / Q_2^3, by field_simp⟩
obtain ⟨x2, hx2⟩ : ∃ x2, R_0 = x2 * R_2^2 := ⟨R_0 / R_2^2, by field_simp⟩
obtain ⟨y2, hy2⟩ : ∃ y2, R_1 = y2 * R_2^3 := ⟨R_1 / R_2^3, by field_simp⟩
subst hx1 hy1 hx2 hy2
have hx : x2 - x1 ≠ 0 := by
  intro h
  apply hV
  have h2 : x2 = x1 := by linear_combination h
  subst h2
  ring
have e1 : x1 * Q_2^2 / Q_2^2 = x1 := by field_simp
have e2 : y1 * Q_2^3 / Q_2^3 = y1 := by field_simp
have e3 : x2 * R_2^2 / R_2^2 = x2 := by field_simp
have e4 : y2 * R_2^3 / R_2^3 = y2 := by field_simp
intro res_0 res_1 res_2
refine ⟨?_, ?_⟩
· have e : res_2 = (x2 - x1) * (Q_2^2 * R_2^2) * Q_2 * R_2 := by simp only [res_2]; ring
  rw [e]
  exact mul_ne_zero (mul_ne_zero (mul_ne_zero hx (mul_ne_zero (pow_ne_zero _ hz1) (pow_ne_zero _ hz2))) hz1) hz2
· simp only [res_0, res_1, res_2, e1, e2, e3, e4]
  constructor
  · field_simp
    ring
  · field_simp
    ring"""


@contract("btclib.curves.curve_group.CurveGroup.add_jac", types=dict(self="obj:CurveGroup", Q=JAC, R=JAC), props="C01",
          via="lean", native_mod=True, lean_p="self.p", lean_post=CHORD_POST, lean_tactic=CHORD_TACTIC)
class AddJacChord:
    """two finite points with different abscissas: the chord law"""

    def pre(self, Q, R):
        p = self.p
        return (canon(Q, p) and canon(R, p) and Q[2] != 0 and R[2] != 0
                and (R[0] * (Q[2] * Q[2]) - Q[0] * (R[2] * R[2])) % p != 0)


TANGENT_POST = """(res_2 ≠ 0) ∧
  (let x1 := Q_0 / Q_2^2; let y1 := Q_1 / Q_2^3
   let lam := (3 * x1^2 + self__a) / (2 * y1); let x3 := lam^2 - x1 - x1; let y3 := lam * (x1 - x3) - y1
   res_0 = x3 * res_2^2 ∧ res_1 = y3 * res_2^3)"""

def _indent(block, n):
    return "\n".join(" " * n + ln if ln else ln for ln in block.splitlines())


TANGENT_MAIN = """have hz : Q_2 ≠ 0 := by ne_from_hyps
have hy : Q_1 ≠ 0 := by ne_from_hyps
obtain ⟨x1, hx1⟩ : ∃ x1, Q_0 = x1 * Q_2^2 := ⟨Q_0 / Q_2^2, by field_simp⟩
obtain ⟨y1, hy1⟩ : ∃ y1, Q_1 = y1 * Q_2^3 := ⟨Q_1 / Q_2^3, by field_simp⟩
subst hx1 hy1
have hy' : y1 ≠ 0 := by
  intro h
  apply hy
  rw [h]
  ring
have e1 : x1 * Q_2^2 / Q_2^2 = x1 := by field_simp
have e2 : y1 * Q_2^3 / Q_2^3 = y1 := by field_simp
intro res_0 res_1 res_2
refine ⟨?_, ?_⟩
· have e : res_2 = 2 * y1 * Q_2^3 * Q_2 := by
    simp only [res_2]
    ring
  rw [e]
  exact mul_ne_zero (mul_ne_zero (mul_ne_zero hpre0 hy') (pow_ne_zero _ hz)) hz
· simp only [res_0, res_1, res_2, e1, e2]
  constructor
  · field_simp
    ring
  · field_simp
    ring"""

def _alt(block):
    """one alternative of a `first`: `  | (` + block with continuation lines at column 5 + `)`"""
    lines = block.splitlines()
    return "  | (" + lines[0] + "\n" + "\n".join("     " + ln for ln in lines[1:]) + ")"


CASE_A_ZERO = "have hA : self__a_is_zero := by tauto\nhave ha : self__a = 0 := by tauto\nsubst ha\n" + TANGENT_MAIN
CASE_MINUS3 = ("have hB : ¬ self__a_is_zero := by tauto\nhave hC : self__a_is_minus_3 := by tauto\nhave hq : QZ2 = Q_2 * Q_2 := by tauto\nsubst hq\n"
               "have h3 : 3 + self__a = 0 := by tauto\nhave ha : self__a = -3 := by linear_combination h3\nsubst ha\n" + TANGENT_MAIN)
CASE_GENERAL = ("have hB : ¬ self__a_is_zero := by tauto\nhave hC : ¬ self__a_is_minus_3 := by tauto\nhave hq : QZ2 = Q_2 * Q_2 := by tauto\nsubst hq\n" + TANGENT_MAIN)
TANGENT_TACTIC = "first\n" + _alt(CASE_A_ZERO) + "\n" + _alt(CASE_MINUS3) + "\n" + _alt(CASE_GENERAL)


@contract("btclib.curves.curve_group.CurveGroup._double_jac_helper", types=dict(self="obj:CurveGroup", Q=JAC, QZ2="int"), props="C01",
          via="lean", native_mod=True, lean_p="self.p", lean_pre=["(2 : ZMod p) ≠ 0"], lean_post=TANGENT_POST, lean_tactic=TANGENT_TACTIC)
class DoubleJacHelperTangent:
    """a finite point that is not of order two: the tangent law, in each of the three
    spellings of a*Z^4 (a = 0, a = -3, general a)"""

    def pre(self, Q, QZ2):
        p = self.p
        return canon(Q, p) and Q[2] != 0 and Q[1] != 0 and (self._a_is_zero or QZ2 == (Q[2] * Q[2]) % p) and 0 <= QZ2 < p


@contract("btclib.curves.curve_group.CurveGroup._double_jac_helper", types=dict(self="obj:CurveGroup", Q=JAC, QZ2="int"), props="C01", native_mod=True)
class DoubleJacHelperInfinity:
    """infinity and the points of order two (y = 0) double to infinity"""

    def pre(self, Q, QZ2):
        return canon(Q, self.p) and (Q[2] == 0 or Q[1] == 0)

    def post_infinity(result):
        return result[2] == 0


@contract("btclib.curves.curve_group.CurveGroup.add_jac", types=dict(self="obj:CurveGroup", Q=JAC, R=JAC), props="C01", native_mod=True)
class AddJacInfinityCases:
    """an operand at infinity: the other operand is returned (infinity for two infinities)"""

    def pre(self, Q, R):
        return canon(Q, self.p) and canon(R, self.p) and (Q[2] == 0 or R[2] == 0)

    def post_selection(Q, R, result):
        if Q[2] == 0 and R[2] == 0:
            return result[2] == 0
        if Q[2] == 0:
            return result == R
        return result == Q


@contract("btclib.curves.curve_group.CurveGroup.add_jac", types=dict(self="obj:CurveGroup", Q=JAC, R=JAC), props="C01", native_mod=True,
          witness=dict(self=dict(p=13, _a=0, _b=7, _a_is_zero=True, _a_is_minus_3=False, _stand_in_q=(4, 2, 1), _stand_in_r=(1, 1, 1)), Q=(7, 5, 1), R=(7, 8, 1)))
class AddJacOppositePoints:
    """same abscissa, different ordinate (opposite points on the curve): infinity"""

    def pre(self, Q, R):
        p = self.p
        return (canon(Q, p) and canon(R, p) and Q[2] != 0 and R[2] != 0
                and (R[0] * ((Q[2] * Q[2]) % p) - (Q[0] * ((R[2] * R[2]) % p)) % p) % p == 0
                and (R[1] * ((((Q[2] * Q[2]) % p) * Q[2]) % p) - (Q[1] * ((((R[2] * R[2]) % p) * R[2]) % p)) % p) % p != 0)

    def post_infinity(result):
        return result[2] == 0


_NOQ = lambda blk: blk.replace("have hq : QZ2 = Q_2 * Q_2 := by tauto\nsubst hq\n", "")  # noqa: E731
DOUBLE_TACTIC = "first\n" + _alt(CASE_A_ZERO) + "\n" + _alt(_NOQ(CASE_MINUS3)) + "\n" + _alt(_NOQ(CASE_GENERAL))


@contract("btclib.curves.curve_group.CurveGroup.double_jac", types=dict(self="obj:CurveGroup", Q=JAC), props="C01",
          via="lean", native_mod=True, lean_p="self.p", lean_pre=["(2 : ZMod p) ≠ 0"], lean_post=TANGENT_POST, lean_tactic=DOUBLE_TACTIC)
class DoubleJacTangent:
    def pre(self, Q):
        return canon(Q, self.p) and Q[2] != 0 and Q[1] != 0


@contract("btclib.curves.curve_group.CurveGroup.double_jac", types=dict(self="obj:CurveGroup", Q=JAC), props="C01", native_mod=True)
class DoubleJacInfinity:
    def pre(self, Q):
        return canon(Q, self.p) and (Q[2] == 0 or Q[1] == 0)

    def post_infinity(result):
        return result[2] == 0


@contract("btclib.curves.curve_group.CurveGroup.add_jac", types=dict(self="obj:CurveGroup", Q=JAC, R=JAC), props="C01",
          via="lean", native_mod=True, lean_p="self.p", lean_pre=["(2 : ZMod p) ≠ 0"], lean_post=TANGENT_POST, lean_tactic=DOUBLE_TACTIC,
          witness=dict(self=dict(p=13, _a=0, _b=7, _a_is_zero=True, _a_is_minus_3=False, _stand_in_q=(4, 2, 1), _stand_in_r=(1, 1, 1)), Q=(7, 5, 1), R=(2, 1, 2)))
class AddJacSamePoint:
    """two representations of one finite point (not of order two): the sum is its double"""

    def pre(self, Q, R):
        p = self.p
        return (canon(Q, p) and canon(R, p) and Q[2] != 0 and R[2] != 0 and Q[1] != 0
                and (R[0] * ((Q[2] * Q[2]) % p) - (Q[0] * ((R[2] * R[2]) % p)) % p) % p == 0
                and (R[1] * ((((Q[2] * Q[2]) % p) * Q[2]) % p) - (Q[1] * ((((R[2] * R[2]) % p) * R[2]) % p)) % p) % p == 0)


CHORD_AFF_POST = """(res_2 ≠ 0) ∧
  (let x1 := Q_0 / Q_2^2; let y1 := Q_1 / Q_2^3; let x2 := R_0; let y2 := R_1
   let lam := (y2 - y1) / (x2 - x1); let x3 := lam^2 - x1 - x2; let y3 := lam * (x1 - x3) - y1
   res_0 = x3 * res_2^2 ∧ res_1 = y3 * res_2^3)"""

CHORD_AFF_TACTIC = """have hz1 : Q_2 ≠ 0 := by ne_from_hyps
have hV : R_0 * (Q_2 * Q_2) - Q_0 ≠ 0 := by ne_from_hyps
obtain ⟨x1, hx1⟩ : ∃ x1, Q_0 = x1 * Q_2^2 := ⟨Q_0 / Q_2^2, by field_simp⟩
obtain ⟨y1, hy1⟩ : ∃ y1, Q_1 = y1 * Q_2^3 := ⟨Q_1 / Q_2^3, by field_simp⟩
subst hx1 hy1
have hx : R_0 - x1 ≠ 0 := by
  intro h
  apply hV
  have h2 : R_0 = x1 := by linear_combination h
  subst h2
  ring
have e1 : x1 * Q_2^2 / Q_2^2 = x1 := by field_simp
have e2 : y1 * Q_2^3 / Q_2^3 = y1 := by field_simp
intro res_0 res_1 res_2
refine ⟨?_, ?_⟩
· have e : res_2 = (R_0 - x1) * (Q_2^2) * Q_2 := by
    simp only [res_2]
    ring
  rw [e]
  exact mul_ne_zero (mul_ne_zero hx (pow_ne_zero _ hz1)) hz1
· simp only [res_0, res_1, res_2, e1, e2]
  constructor
  · field_simp
    ring
  · field_simp
    ring"""


@contract("btclib.curves.curve_group.CurveGroup.add_jac_aff", types=dict(self="obj:CurveGroup", Q=JAC, R="tuple[int,int]"), props="C01",
          via="lean", native_mod=True, lean_p="self.p", lean_post=CHORD_AFF_POST, lean_tactic=CHORD_AFF_TACTIC)
class AddJacAffChord:
    """mixed addition, the chord case"""

    def pre(self, Q, R):
        p = self.p
        return (canon(Q, p) and canon(R, p) and Q[2] != 0 and R[1] != 0
                and (R[0] * (Q[2] * Q[2]) - Q[0]) % p != 0)


@contract("btclib.curves.curve_group.CurveGroup.add_jac_aff", types=dict(self="obj:CurveGroup", Q=JAC, R="tuple[int,int]"), props="C01", native_mod=True)
class AddJacAffInfinityCases:
    def pre(self, Q, R):
        return canon(Q, self.p) and canon(R, self.p) and (Q[2] == 0 or R[1] == 0)

    def post_selection(Q, R, result):
        if Q[2] == 0 and R[1] == 0:
            return result[2] == 0
        if Q[2] == 0:
            return result == (R[0], R[1], 1)
        return result == Q
