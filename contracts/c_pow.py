"""Contracts: btclib.block.proof_of_work (C17: compact targets, work)."""
from btclib.block import proof_of_work as pow_
from btclib.exceptions import BTClibTypeError, BTClibValueError
from pyvc.api import assume, contract, lemma
from spec import pow as spec


def be(b):
    return int.from_bytes(b, "big")


@contract("btclib.block.proof_of_work._value_from_bits", types=dict(bits="bytes[4]"), props="C17")
class ValueFromBits:
    def split_exponent(bits):
        return (bits[0], 0, 255)

    def post_is_set_compact_unreduced(bits, result):
        # Core's SetCompact keeps the value mod 2**256 and reports overflow apart; btclib keeps the
        # unbounded integer and refuses later: the two agree below 2**256
        value, negative, overflow = spec.set_compact(be(bits))
        return result % spec.M256 == value and (overflow or result < spec.M256 or result >= spec.M256)


@contract("btclib.block.proof_of_work.target_from_bits", types=dict(bits="bytes[4]"), props="C17 C19")
class TargetFromBits:
    def split_exponent(bits):
        return (bits[0], 0, 255)

    def raises_BTClibValueError(bits):
        value, negative, overflow = spec.set_compact(be(bits))
        return overflow

    def post_value(bits, result):
        value, negative, overflow = spec.set_compact(be(bits))
        return len(result) == 32 and be(result) == value


@contract("btclib.block.proof_of_work.is_negative_bits", types=dict(bits="bytes[4]"), props="C17")
class IsNegativeBits:
    def split_exponent(bits):
        return (bits[0], 0, 255)

    def post_sign(bits, result):
        value, negative, overflow = spec.set_compact(be(bits))
        return result == negative or overflow


@contract("btclib.block.proof_of_work.bits_from_target", types=dict(target="bytes[0..3]"), props="C17 C19")
class BitsFromTargetShort:
    def split_length(target):
        return (len(target), 0, 3)

    def post_is_get_compact(target, result):
        return len(result) == 4 and be(result) == spec.get_compact(be(target))


@lemma("pow.bits_from_target_refuses_33_bytes", types=dict(target="bytes[33]"), props="C17 C19")
def bits_from_target_too_long(target):
    try:
        pow_.bits_from_target(target)
    except BTClibValueError:
        return True
    return False


@contract("btclib.block.proof_of_work.bits_from_target", types=dict(target="bytes[32]"), props="C17 C19")
class BitsFromTarget:
    def raises_BTClibValueError(target):
        return len(target) > 32

    def post_is_get_compact(target, result):
        return len(result) == 4 and be(result) == spec.get_compact(be(target))

    def post_never_negative_never_rounds_up(target, result):
        value, negative, overflow = spec.set_compact(be(result))
        return (not negative) and (not overflow) and value <= be(target)


@lemma("pow.COMPACT_INVERSE_on_canonical", types=dict(target="bytes[32]"), props="C17")
def compact_inverse(target):
    """decoding then encoding is the identity on canonical compact values, i.e. the values the
    encoder produces: bits_from_target(target_from_bits(b)) == b for b = bits_from_target(t)"""
    b = pow_.bits_from_target(target)
    return pow_.bits_from_target(pow_.target_from_bits(b)) == b


@lemma("pow.TARGET_ROUNDTRIP_on_3_significant_bytes", types=dict(bits="bytes[4]"), props="C17")
def target_roundtrip(bits):
    """encoding then decoding never rounds up and is exact when the value has at most 3
    significant bytes: target_from_bits(bits_from_target(t)) <= t"""
    assume(bits[0] <= 32)
    try:
        t = pow_.target_from_bits(bits)
    except BTClibValueError:
        return True
    t2 = pow_.target_from_bits(pow_.bits_from_target(t))
    return be(t2) <= be(t)


@contract("btclib.block.proof_of_work.block_work", types=dict(bits="bytes[4]"), props="C17")
class BlockWork:
    def split_exponent(bits):
        return (bits[0], 0, 255)

    def raises_BTClibValueError(bits):
        value, negative, overflow = spec.set_compact(be(bits))
        return overflow or value == 0

    def post_core(bits, result):
        value, negative, overflow = spec.set_compact(be(bits))
        return result == spec.block_proof(value)


@contract("btclib.block.proof_of_work.retarget_first_height", types=dict(last_height="int"), props="C17")
class RetargetFirstHeight:
    def raises_BTClibValueError(last_height):
        return (last_height + 1) % 2016 != 0

    def post_first(last_height, result):
        return result == last_height - 2015 and result % 2016 == 0


@contract("btclib.block.proof_of_work.next_bits",
          types=dict(bits="bytes[4]", first_block_time="datetime", last_block_time="datetime"), props="C17", tier="deep")
class NextBits:
    """retargeting against Core's CalculateNextWorkRequired on arith_uint256 (mainnet limit)"""

    def split_exponent(bits):
        return (bits[0], 0, 255)

    def raises_BTClibValueError(bits):
        value, negative, overflow = spec.set_compact(be(bits))
        return overflow

    def post_core(bits, first_block_time, last_block_time, result):
        span = int((last_block_time - first_block_time).total_seconds())
        return be(result) == spec.next_work(be(bits), span, 0x1D00FFFF)


def _gen_next_bits(rng):
    from datetime import datetime, timedelta, timezone
    exp = rng.choice([0x1D, 0x1C, 0x18, 0x17, 0x1E, 0x1F, 0x20, 0x20, 0x20, 0x03, 0x04, 0x21, 0x22])
    mant = rng.choice([0x00FFFF, 0x7FFFFF, 0x008000, 0x000001, 0x0B8C8B, rng.randrange(1, 0x800000)])
    bits = bytes([exp]) + mant.to_bytes(3, "big")
    two_weeks = 14 * 24 * 3600
    span = rng.choice([two_weeks, two_weeks // 4, two_weeks // 4 - 1, two_weeks * 4, two_weeks * 4 + 1, 1, 0, -5, rng.randrange(1, two_weeks * 5)])
    t0 = datetime.fromtimestamp(1_600_000_000, timezone.utc)
    limit = rng.choice([b"\x1d\x00\xff\xff", b"\x1d\x00\xff\xff", b"\x20\x7f\xff\xff", b"\x1e\x03\x77\xae"])
    return dict(bits=bits, first_block_time=t0, last_block_time=t0 + timedelta(seconds=span), pow_limit_bits=limit)


def next_bits_run(bits, first_block_time, last_block_time, pow_limit_bits):
    from btclib.block.proof_of_work import next_bits
    return next_bits(bits, first_block_time, last_block_time, pow_limit_bits=pow_limit_bits)


@contract("contracts.c_pow.next_bits_run", gen=_gen_next_bits, props="C17", n_quick=2000, n_thorough=40000,
          rule="compact targets with exponents 3..0x22 (the 256-bit wrap of target x timespan included) x timespans at the quarter / four-times clamps, zero and negative x mainnet, regtest and signet limits")
class NextBitsBounded:
    """CalculateNextWorkRequired on arith_uint256: clamp the timespan, multiply modulo 2^256,
    divide, clamp to the limit, re-encode; an overflowing compact target is refused"""

    def raises_BTClibValueError(bits):
        value, negative, overflow = spec.set_compact(be(bits))
        return overflow

    def post_core(bits, first_block_time, last_block_time, pow_limit_bits, result):
        span = int((last_block_time - first_block_time).total_seconds())
        return be(result) == spec.next_work(be(bits), span, be(pow_limit_bits))
