"""Contracts: taproot outputs commit to exactly their key and script tree (C12, C04 arms)."""
from btclib.exceptions import BTClibTypeError, BTClibValueError
from btclib.script import script as script_mod
from btclib.script import taproot
from pyvc.api import contract
from spec import taproot_ref as ref
from spec.ec_ref import SECP256K1 as C
from spec.ec_ref import sec_compressed


def _rand_script(rng):
    return rng.choice([["OP_1"], ["OP_2", "OP_DROP", "OP_1"], [bytes(rng.getrandbits(8) for _ in range(32)).hex(), "OP_CHECKSIG"], ["OP_RETURN"],
                       [bytes(rng.getrandbits(8) for _ in range(rng.choice([1, 20, 33]))).hex()]])


def _rand_tree(rng, depth=0):
    if depth >= 4 or rng.random() < 0.35:
        return [(rng.choice([0xC0, 0xC0, 0xC2, 0xFA]), _rand_script(rng))]
    return [_rand_tree(rng, depth + 1), _rand_tree(rng, depth + 1)]


def _tree_bytes(tree):
    """the same tree with scripts serialized, for the reference"""
    if len(tree) == 1:
        v, s = tree[0]
        return [(v, script_mod.serialize(s))]
    return [_tree_bytes(tree[0]), _tree_bytes(tree[1])]


def _rand_key(rng):
    d = rng.choice([1, 2, 3, C.n - 1, rng.randrange(1, C.n)])
    P = C.mul(d, C.G)
    return d, P


def _key_spelling(rng, P):
    c = rng.random()
    x = P[0].to_bytes(32, "big")
    if c < 0.3:
        return sec_compressed(P)
    if c < 0.5:
        return b"\x04" + x + P[1].to_bytes(32, "big")
    if c < 0.65:
        return sec_compressed(C.neg(P))
    if c < 0.8:
        return (b"\x04" + x + P[1].to_bytes(32, "big")).hex()
    return sec_compressed(P).hex()


def _bad_key(rng, P):
    x = P[0].to_bytes(32, "big")
    y = P[1].to_bytes(32, "big")
    return rng.choice([b"\x04" + x + ((P[1] + 1) % C.p).to_bytes(32, "big"),      # y not the ordinate of x
                       bytes([6 + (P[1] & 1)]) + x + y, bytes([7 - (P[1] & 1)]) + x + y,    # hybrid prefixes, right and wrong parity: no spelling of a key here
                       b"\x05" + x, b"\x04" + x + x, b"\x02" + (C.p + 1).to_bytes(32, "big"),
                       b"\x02" + _off_curve_x(rng)])


def _off_curve_x(rng):
    while True:
        x = rng.randrange(1, C.p)
        if C.lift_x(x) is None:
            return x.to_bytes(32, "big")


def _gen_output(rng):
    d, P = _rand_key(rng)
    tree = _rand_tree(rng) if rng.random() < 0.8 else None
    key = _key_spelling(rng, P) if rng.random() < 0.8 else _bad_key(rng, P)
    return dict(internal_pubkey=key, script_tree=tree)


def _ref_internal(key):
    from spec.ec_ref import point_from_sec
    b = bytes.fromhex(key) if isinstance(key, str) else key
    P = point_from_sec(b)
    return None if P is None else P[0].to_bytes(32, "big")


@contract("btclib.script.taproot.output_pubkey", gen=_gen_output, props="C12 C04", both_arms=True, n_quick=150, n_thorough=4000,
          rule="internal keys in every accepted spelling and both parities, invalid spellings (off-curve x, wrong ordinate, bad prefix), random trees of depth <= 4 with repeated leaves")
class OutputPubkeyBounded:
    def raises_BTClibValueError(internal_pubkey, script_tree):
        x = _ref_internal(internal_pubkey)
        if x is None:
            return True
        h = ref.tree_helper(_tree_bytes(script_tree))[1] if script_tree else b""
        return ref.tweak_pubkey(x, h) is None

    def post_bip341_tweak(internal_pubkey, script_tree, result):
        x = _ref_internal(internal_pubkey)
        h = ref.tree_helper(_tree_bytes(script_tree))[1] if script_tree else b""
        parity, q = ref.tweak_pubkey(x, h)
        return result[0] == q and result[1] == parity


def _gen_prv(rng):
    d, P = _rand_key(rng)
    return dict(prv_key=d, script_tree=_rand_tree(rng) if rng.random() < 0.7 else None)


@contract("btclib.script.taproot.output_prvkey", gen=_gen_prv, props="C12 C04", both_arms=True, n_quick=150, n_thorough=4000)
class OutputPrvkeyBounded:
    """the tweaked private key multiplies the generator to the output key"""

    def post_matches_pubkey(prv_key, script_tree, result):
        h = ref.tree_helper(_tree_bytes(script_tree))[1] if script_tree else b""
        want = ref.tweak_seckey(prv_key, h)
        Q = C.mul(result, C.G)
        q, parity = taproot.output_pubkey(sec_compressed(C.mul(prv_key, C.G)), script_tree)
        return result == want and Q[0].to_bytes(32, "big") == q and (Q[1] & 1) == parity


def _gen_leaf(rng):
    d, P = _rand_key(rng)
    tree = _rand_tree(rng)
    n = len(ref.tree_helper(_tree_bytes(tree))[0])
    return dict(internal_pubkey=_key_spelling(rng, P), script_tree=tree, script_num=rng.randrange(n))


@contract("btclib.script.taproot.input_script_sig", gen=_gen_leaf, props="C12 C04", both_arms=True, n_quick=150, n_thorough=4000)
class InputScriptSigBounded:
    """for every leaf, the control block produced proves that leaf against the output key;
    altered in one bit it no longer does"""

    def post_control_proves_leaf(internal_pubkey, script_tree, script_num, result):
        script, control = result
        sb = script_mod.serialize(script)
        q, parity = taproot.output_pubkey(internal_pubkey, script_tree)
        leaves, root = ref.tree_helper(_tree_bytes(script_tree))
        (ver, s), path = leaves[script_num]
        x = _ref_internal(internal_pubkey)
        expected = bytes([ver + parity]) + x + path
        flipped = bytearray(control)
        flipped[len(flipped) // 2] ^= 1
        return (control == expected and sb == s and ref.control_verifies(q, sb, control) is True
                and taproot.check_output_pubkey(q, sb, control) is True
                and _safe_check(q, sb, bytes(flipped)) is False)


def _safe_check(q, s, control):
    try:
        return taproot.check_output_pubkey(q, s, control)
    except BTClibValueError:
        return False


def _gen_check(rng):
    g = _gen_leaf(rng)
    script, control = taproot.input_script_sig(g["internal_pubkey"], g["script_tree"], g["script_num"])
    q, _ = taproot.output_pubkey(g["internal_pubkey"], g["script_tree"])
    sb = script_mod.serialize(script)
    c = rng.random()
    control = bytearray(control)
    if c < 0.1:
        control[0] ^= 1             # the parity bit of the output key alone
    elif c < 0.2:
        control[rng.randrange(len(control))] ^= 1 << rng.randrange(8)
    elif c < 0.3:
        control += bytes(32 * rng.choice([1, 2]))
    elif c < 0.4:
        control = control[:-1]
    elif c < 0.5:
        # deepest legal path and one level deeper (BIP341: at most 128 levels)
        control = control[:33] + bytes(rng.getrandbits(8) for _ in range(32 * rng.choice([127, 128, 129])))
    elif c < 0.6:
        sb = sb + b"\x51"
    elif c < 0.7:
        q = bytes([q[0] ^ 1]) + q[1:]
    return dict(q=q, script=sb, control=bytes(control))


@contract("btclib.script.taproot.check_output_pubkey", gen=_gen_check, props="C12 C04 C19", both_arms=True, n_quick=200, n_thorough=5000,
          rule="control blocks the library produced and their alterations: flipped parity bit, bit flips, truncation, extension, paths of 127/128/129 levels, altered script, altered output key")
class CheckOutputPubkeyBounded:
    def raises_BTClibValueError(q, script, control):
        return ref.control_verifies(q, script, control) is None

    def post_verdict(q, script, control, result):
        return result == ref.control_verifies(q, script, control)
