"""Contracts: standard scriptPubKey patterns and address <-> script inverse (C06)."""
from btclib import b32, b58
from btclib.exceptions import BTClibTypeError, BTClibValueError
from btclib.script import script_pub_key as spk
from btclib.script.script_pub_key import ScriptPubKey
from pyvc.api import assume, contract, lemma


@contract("btclib.script.script_pub_key.is_p2pkh", types=dict(script_pub_key="bytes"), props="C06 C19")
class IsP2pkh:
    def post_pattern(script_pub_key, result):
        s = script_pub_key
        return result == (len(s) == 25 and s[:3] == b"\x76\xa9\x14" and s[23:] == b"\x88\xac")


@contract("btclib.script.script_pub_key.is_p2sh", types=dict(script_pub_key="bytes"), props="C06 C19")
class IsP2sh:
    def post_pattern(script_pub_key, result):
        s = script_pub_key
        return result == (len(s) == 23 and s[:2] == b"\xa9\x14" and s[22:] == b"\x87")


@contract("btclib.script.script_pub_key.is_p2wpkh", types=dict(script_pub_key="bytes"), props="C06 C19")
class IsP2wpkh:
    def post_pattern(script_pub_key, result):
        s = script_pub_key
        return result == (len(s) == 22 and s[:2] == b"\x00\x14")


@contract("btclib.script.script_pub_key.is_p2wsh", types=dict(script_pub_key="bytes"), props="C06 C19")
class IsP2wsh:
    def post_pattern(script_pub_key, result):
        s = script_pub_key
        return result == (len(s) == 34 and s[:2] == b"\x00\x20")


@contract("btclib.script.script_pub_key.is_p2tr", types=dict(script_pub_key="bytes"), props="C06 C19")
class IsP2tr:
    def post_pattern(script_pub_key, result):
        s = script_pub_key
        return result == (len(s) == 34 and s[:2] == b"\x51\x20")


@contract("btclib.script.script_pub_key.is_segwit", types=dict(script_pub_key="bytes"), props="C06 C19")
class IsSegwit:
    """BIP141 witness program: 1-byte version push (OP_0, OP_1..OP_16), then a direct push of 2..40 bytes"""

    def post_pattern(script_pub_key, result):
        s = script_pub_key
        if len(s) < 4 or len(s) > 42:
            return result == False  # noqa: E712
        return result == ((s[0] == 0 or 0x51 <= s[0] <= 0x60) and s[1] == len(s) - 2)


@contract("btclib.script.script_pub_key.is_nulldata", types=dict(script_pub_key="bytes"), props="C06 C19")
class IsNulldata:
    """OP_RETURN followed by exactly one minimal push of at most 80 bytes"""

    def post_pattern(script_pub_key, result):
        s = script_pub_key
        n = len(s)
        if n < 2 or s[0] != 0x6A:
            return result == False  # noqa: E712
        if n <= 77:
            return result == (s[1] == n - 2)
        if 79 <= n <= 83:
            return result == (s[1] == 0x4C and s[2] == n - 3)
        return result == False  # noqa: E712


# ---------------------------------------------------------------- bounded: address <-> script
NETS = ["mainnet", "testnet", "regtest", "signet", "testnet4"]


def _gen_script(rng):
    kind = rng.choice(["p2pkh", "p2sh", "p2wpkh", "p2wsh", "p2tr", "wit", "near"])
    h20 = bytes(rng.getrandbits(8) for _ in range(20))
    h32 = bytes(rng.getrandbits(8) for _ in range(32))
    if kind == "p2pkh":
        s = b"\x76\xa9\x14" + h20 + b"\x88\xac"
    elif kind == "p2sh":
        s = b"\xa9\x14" + h20 + b"\x87"
    elif kind == "p2wpkh":
        s = b"\x00\x14" + h20
    elif kind == "p2wsh":
        s = b"\x00\x20" + h32
    elif kind == "p2tr":
        s = b"\x51\x20" + h32
    elif kind == "wit":
        v = rng.randrange(1, 17)
        n = rng.choice([2, 20, 32, 33, 40, rng.randrange(2, 41)])
        s = bytes([0x50 + v, n]) + bytes(rng.getrandbits(8) for _ in range(n))
    else:
        s = bytearray(rng.choice([b"\x76\xa9\x14" + h20 + b"\x88\xac", b"\xa9\x14" + h20 + b"\x87", b"\x00\x14" + h20]))
        i = rng.choice([0, 1, 2, len(s) - 1, len(s) - 2, rng.randrange(len(s))])
        s[i] = rng.choice([s[i] ^ 1, 0xAC, 0xAD, 0x87, 0x88, 0x14, 0x20])
        s = bytes(s)
    return dict(script_pub_key=s, network=rng.choice(NETS))


def _is_standard_addressable(s):
    return (spk.is_p2pkh(s) or spk.is_p2sh(s) or spk.is_segwit(s))


@contract("btclib.script.script_pub_key.address", gen=_gen_script, props="C06", n_quick=2500, n_thorough=40000,
          rule="every standard output type and witness version on the five networks, plus one-byte corruptions of standard scripts")
class AddressBounded:
    """address and scriptPubKey are inverse maps; the network read back shares the prefix"""

    def post_empty_iff_not_standard(script_pub_key, network, result):
        s = script_pub_key
        exact = (len(s) == 25 and s[:3] == b"\x76\xa9\x14" and s[23:] == b"\x88\xac") or \
                (len(s) == 23 and s[:2] == b"\xa9\x14" and s[22:] == b"\x87") or \
                (4 <= len(s) <= 42 and (s[0] == 0 or 0x51 <= s[0] <= 0x60) and s[1] == len(s) - 2 and (s[0] != 0 or len(s) in (22, 34)))
        return (result == "") == (not exact)

    def post_inverse(script_pub_key, network, result):
        if result == "":
            return True
        back = ScriptPubKey.from_address(result)
        from btclib.network import NETWORKS
        same_prefix = NETWORKS[back.network].hrp == NETWORKS[network].hrp if b32.is_segwit_prefixed(result) else \
            (NETWORKS[back.network].p2pkh == NETWORKS[network].p2pkh and NETWORKS[back.network].p2sh == NETWORKS[network].p2sh)
        return back.script == script_pub_key and same_prefix and \
            NETWORKS[back.network].network_type == NETWORKS[network].network_type
