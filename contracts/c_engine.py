"""Contracts: spend-level verdicts of the script engine against a transcription of Core's
EvalScript / VerifyScript for signature-free programs (C08, C19) -- bounded stand-in."""
import hashlib

from btclib.exceptions import BTClibValueError
from btclib.script.engine import verify_input
from btclib.script.engine.flags import ScriptFlag
from btclib.script.script_pub_key import ScriptPubKey
from btclib.script.witness import Witness
from btclib.tx.out_point import OutPoint
from btclib.tx.tx import Tx
from btclib.tx.tx_in import TxIn
from btclib.tx.tx_out import TxOut
from pyvc.api import contract
from spec import core_interp as core
from spec.core_script import scriptnum_serialize

FLAGSETS = [(), ("P2SH",), ("P2SH", "WITNESS"), ("P2SH", "WITNESS", "MINIMALDATA"), ("P2SH", "WITNESS", "MINIMALIF"),
            ("P2SH", "WITNESS", "MINIMALDATA", "MINIMALIF", "CLEANSTACK"), ("P2SH", "WITNESS", "CLEANSTACK", "SIGPUSHONLY")]


def engine_verdict(script_sig, script_pub_key, witness, flags):
    fl = ScriptFlag(0)
    for name in flags:
        fl |= getattr(ScriptFlag, name)
    tx = Tx(2, 0, [TxIn(OutPoint(b"\x01" * 32, 0), script_sig, 0xFFFFFFFF, Witness(witness), check_validity=False)],
            [TxOut(1000, b"\x51")], check_validity=False)
    prevouts = [TxOut(2000, ScriptPubKey(script_pub_key, check_validity=False), check_validity=False)]
    try:
        verify_input(prevouts, tx, 0, fl)
    except BTClibValueError:
        return False
    return True


def push(data):
    n = len(data)
    if n == 0:
        return b"\x00"
    if n == 1 and 1 <= data[0] <= 16:
        return bytes([0x50 + data[0]])
    if n == 1 and data[0] == 0x81:
        return b"\x4f"
    if n <= 75:
        return bytes([n]) + data
    if n <= 255:
        return b"\x4c" + bytes([n]) + data
    return b"\x4d" + n.to_bytes(2, "little") + data


def num(v):
    return push(scriptnum_serialize(v))


def _program(rng):
    """a signature-free program, often true, sometimes subtly wrong"""
    O = core.OP
    c = rng.random()
    a, b = rng.randrange(-300, 300), rng.randrange(-300, 300)
    if c < 0.12:
        ops = {0x93: a + b, 0x94: a - b, 0xA3: min(a, b), 0xA4: max(a, b)}
        op = rng.choice(list(ops))
        return num(a) + num(b) + bytes([op]) + num(ops[op] + rng.choice([0, 0, 0, 1])) + b"\x87"
    if c < 0.2:
        x, lo, hi = rng.randrange(-5, 20), rng.randrange(0, 10), rng.randrange(5, 15)
        return num(x) + num(lo) + num(hi) + b"\xa5"
    if c < 0.32:
        cond = rng.choice([b"", b"\x01", b"\x02", b"\x80", b"\x00", b"\x01\x00"])
        body = num(rng.randrange(0, 3))
        return push(cond) if False else (b"\x01" + cond if len(cond) == 1 and not (1 <= cond[0] <= 16 or cond[0] == 0x81) else push(cond)) + rng.choice([b"\x63", b"\x64"]) + body + b"\x67" + num(rng.randrange(0, 3)) + b"\x68"
    if c < 0.4:
        d = bytes(rng.getrandbits(8) for _ in range(rng.randrange(0, 40)))
        h = rng.choice([(0xA8, hashlib.sha256(d).digest()), (0xA9, hashlib.new("ripemd160", hashlib.sha256(d).digest()).digest()), (0xAA, hashlib.sha256(hashlib.sha256(d).digest()).digest())])
        return push(d) + bytes([h[0]]) + push(h[1] if rng.random() < 0.8 else h[1][::-1]) + b"\x87"
    if c < 0.5:
        n = rng.choice([199, 200, 201, 202])
        return b"\x51" + b"\x61" * n
    if c < 0.58:
        n = rng.choice([519, 520, 521])
        return push(bytes(n)) + b"\x75\x51"
    if c < 0.66:
        k = rng.choice([998, 999, 1000, 1001])
        return b"\x51" * min(k, 1002) + b"\x75" * 0 + (b"" if k > 1000 else b"")
    if c < 0.74:
        return rng.choice([b"\x51\x63\x51", b"\x51\x68", b"\x51\x67\x68", b"\x00\x63\x7e\x68\x51", b"\x51\x7e", b"\x00\x63\x50\x68\x51", b"\x51\x50",
                           b"\x6a", b"\x51\x6a", b"\x52\x51\x7a", b"\x51\x51\x79", b"\x05\x01", b"\x4c\x05\x01"])
    if c < 0.82:
        # non-minimal pushes and numbers
        return rng.choice([b"\x01\x05\x55\x87", b"\x4c\x01\x07\x57\x87", b"\x02\x05\x00\x55\x9c", b"\x01\x00\x00\x9c", b"\x01\x80\x00\x9c", b"\x4d\x01\x00\x09\x59\x87"])
    ops = [0x76, 0x7C, 0x78, 0x7B, 0x7D, 0x6E, 0x6F, 0x72, 0x73, 0x74, 0x82, 0x8B, 0x8C, 0x8F, 0x90, 0x91, 0x92, 0x9A, 0x9B, 0x9E, 0x9F, 0xA0, 0xA1, 0xA2, 0x6B, 0x6C, 0x77, 0x75, 0x6D, 0x70, 0x71]
    s = b"".join(num(rng.randrange(-3, 20)) for _ in range(rng.randrange(1, 5)))
    for _ in range(rng.randrange(1, 7)):
        s += bytes([rng.choice(ops)]) if rng.random() < 0.7 else num(rng.randrange(-2, 5))
    return s


def _big_witness_script(rng):
    size = rng.choice([521, 600, 3000, 9999, 10000, 10001])
    body = b""
    while len(body) + 510 < size - 1:
        body += push(bytes(rng.choice([500, 505]))) + b"\x75"
    body += b"\x61" * max(0, min(size - 1 - len(body), 150))
    return body + b"\x51"


def _gen_spend(rng):
    flags = rng.choice(FLAGSETS)
    form = rng.choice(["bare", "bare", "p2sh", "p2wsh", "p2wsh", "p2sh-p2wsh"])
    prog = _program(rng) if rng.random() < 0.85 or form in ("bare", "p2sh") else _big_witness_script(rng)
    inputs = [rng.choice([b"", b"\x01", b"\x02", bytes(rng.randrange(0, 4))]) for _ in range(rng.choice([0, 0, 1, 2]))]
    if rng.random() < 0.1:
        inputs.append(bytes(rng.choice([520, 521])))
    if form == "bare":
        sig = b"".join(push(x) for x in inputs)
        if rng.random() < 0.1:
            sig += b"\x61"          # non push-only scriptSig
        return dict(script_sig=sig, script_pub_key=prog, witness=[], flags=flags)
    if form == "p2sh":
        if len(prog) > 520:
            prog = prog[:100]
        h = hashlib.new("ripemd160", hashlib.sha256(prog).digest()).digest()
        sig = b"".join(push(x) for x in inputs) + push(prog)
        return dict(script_sig=sig, script_pub_key=b"\xa9\x14" + h + b"\x87", witness=[], flags=flags)
    wprog = b"\x00\x20" + hashlib.sha256(prog).digest()
    witness = inputs + [prog]
    if form == "p2wsh":
        sig = b"" if rng.random() < 0.9 else b"\x51"
        return dict(script_sig=sig, script_pub_key=wprog, witness=witness, flags=flags)
    h = hashlib.new("ripemd160", hashlib.sha256(wprog).digest()).digest()
    sig = push(wprog) if rng.random() < 0.85 else b"\x51" + push(wprog)      # an extra push must be refused
    return dict(script_sig=sig, script_pub_key=b"\xa9\x14" + h + b"\x87", witness=witness, flags=flags)


@contract("contracts.c_engine.engine_verdict", gen=_gen_spend, props="C08 C19", n_quick=1500, n_thorough=40000,
          rule="signature-free programs (arithmetic, comparisons, conditionals incl. non-minimal conditions, hashes, stack ops, disabled/reserved opcodes, non-minimal pushes and numbers, scripts at the 201-op / 520-byte / 1000-element / 10000-byte limits) spent bare, P2SH, P2WSH and P2SH-P2WSH (witness scripts of 521..10001 bytes, extra scriptSig pushes) under seven flag sets")
class EngineVerdictBounded:
    """accepts exactly when Core's VerifyScript accepts; a refusal is the library's script error"""

    def post_core_verdict(script_sig, script_pub_key, witness, flags, result):
        return result is core.verify(script_sig, script_pub_key, witness, set(flags))


# ---- signed spends: script-code construction and OP_CODESEPARATOR positions -----------------
from spec import bip340_ref, sighash as sh, taproot_ref       # noqa: E402
from spec.der import der_sig                                  # noqa: E402
from spec.ec_ref import SECP256K1 as _C, sec_compressed      # noqa: E402
from spec.ecdsa_ref import sign_raw                           # noqa: E402

_SIGNED_FLAGS = ("P2SH", "DERSIG", "WITNESS", "TAPROOT", "NULLFAIL", "LOW_S", "STRICTENC")


def _segments(rng, tapscript):
    """(script bytes, opcode position of the last executed OP_CODESEPARATOR or None, byte offset
    just after it) for a prefix that leaves the stack as it found it"""
    out = b""
    n_ops = 0
    pos = None
    off = 0
    for _ in range(rng.randrange(0, 6)):
        c = rng.random()
        a = rng.randrange(-2, 40)
        if c < 0.22:
            seg, k = num(a) + num(a) + b"\x88", 3                # OP_EQUALVERIFY
        elif c < 0.4:
            seg, k = num(a) + num(a) + b"\x9d", 3                # OP_NUMEQUALVERIFY
        elif c < 0.5:
            seg, k = b"\x61", 1
        elif c < 0.6:
            seg, k = push(bytes(rng.randrange(2, 80))) + b"\x75", 2
        elif c < 0.7:
            seg, k = b"\x00\x63\xab\x68", 4                      # an unexecuted OP_CODESEPARATOR
        elif c < 0.78:
            seg, k = b"\x51\x63\xab\x68", 4                      # an executed one inside OP_IF
            pos, off = n_ops + 2, len(out) + 3
        else:
            seg, k = b"\xab", 1
            pos, off = n_ops, len(out) + 1
        out += seg
        n_ops += k
    return out, pos, off


def _gen_signed(rng):
    form = rng.choice(["tapscript", "tapscript", "p2wsh", "bare"])
    d = rng.randrange(1, _C.n)
    P = _C.mul(d, _C.G)
    prefix, pos, off = _segments(rng, form == "tapscript")
    tail = rng.choice(["checksig", "checksigverify", "checksigadd"] if form == "tapscript" else ["checksig", "checksigverify"])
    honest = rng.random() < 0.6
    txv = dict(version=2, lock_time=rng.choice([0, 500000]), sequence=rng.choice([0xFFFFFFFF, 0xFFFFFFFE, 5]), amount=rng.randrange(1000, 10**8),
               hash_type=rng.choice([1, 1, 2, 3, 0x81, 0x83]) if form != "tapscript" else rng.choice([0, 0, 1, 2, 3, 0x81, 0x82, 0x83]))
    return dict(form=form, d=d, prefix=prefix, pos=pos, off=off, tail=tail, honest=honest, lie=rng.choice(["pos-1", "pos+1", "none", "start"]),
                aux=bytes(rng.getrandbits(8) for _ in range(32)), **txv)


def signed_spend_verdict(form, d, prefix, pos, off, tail, honest, lie, aux, version, lock_time, sequence, amount, hash_type):
    """build the spend, sign it with the reference signer over the reference digest for the
    script code / code-separator position the script really has (honest) or one it does not
    have, and ask the engine; returns (engine verdict, expected verdict)"""
    P = _C.mul(d, _C.G)
    fl = ScriptFlag(0)
    for name in _SIGNED_FLAGS:
        fl |= getattr(ScriptFlag, name)
    if form == "tapscript":
        pk = P[0].to_bytes(32, "big")
        body = {"checksig": push(pk) + b"\xac", "checksigverify": push(pk) + b"\xad\x51", "checksigadd": b"\x00" + push(pk) + b"\xba\x51\x9c"}[tail]
    else:
        pk = sec_compressed(P)
        body = {"checksig": push(pk) + b"\xac", "checksigverify": push(pk) + b"\xad\xab\x51"}[tail]
    script = prefix + body
    if form == "tapscript":
        internal = _C.mul(7, _C.G)[0].to_bytes(32, "big")
        lh = taproot_ref.leaf_hash(0xC0, script)
        parity, q = taproot_ref.tweak_pubkey(internal, lh)
        spk = b"\x51\x20" + q
    elif form == "p2wsh":
        spk = b"\x00\x20" + hashlib.sha256(script).digest()
    else:
        spk = script
    tx = Tx(version, lock_time, [TxIn(OutPoint(b"\x02" * 32, 1), b"", sequence, Witness([]), check_validity=False)],
            [TxOut(900, b"\x51")], check_validity=False)
    prevouts = [TxOut(amount, ScriptPubKey(spk, check_validity=False), check_validity=False)]
    true_pos = 0xFFFFFFFF if pos is None else pos
    if honest:
        use_pos, use_off = true_pos, off
    else:
        use_pos = {"pos-1": (true_pos - 1) % 2**32, "pos+1": (true_pos + 1) % 2**32, "none": 0xFFFFFFFF, "start": 0}[lie]
        use_off = 0 if lie in ("none", "start") else max(0, off - 1)
        if form == "tapscript":
            honest = use_pos == true_pos
        elif form == "p2wsh":
            honest = use_off == off
        else:       # the legacy digest drops every OP_CODESEPARATOR of the script code
            honest = sh.find_and_delete_codeseparators(script[use_off:]) == sh.find_and_delete_codeseparators(script[off:])
    if form == "tapscript":
        ext = lh + b"\x00" + use_pos.to_bytes(4, "little")
        msg = sh.bip341(tx, 0, prevouts, hash_type, 1, b"", ext)
        sig = bip340_ref.sign(msg, d, aux) + (bytes([hash_type]) if hash_type else b"")
        tx.vin[0].script_witness = Witness([sig, script, bytes([0xC0 | parity]) + internal])
    else:
        code = script[use_off:]
        if form == "p2wsh":
            digest = sh.bip143(code, tx, 0, hash_type, amount)
        else:
            digest = sh.legacy(code, tx, 0, hash_type)
        c = int.from_bytes(digest, "big")
        k = int.from_bytes(hashlib.sha256(aux + digest).digest(), "big") % _C.n or 1
        r, s, _ = sign_raw(_C, c, d, k)
        s = min(s, _C.n - s)
        sig = der_sig(r, s) + bytes([hash_type])
        if form == "p2wsh":
            tx.vin[0].script_witness = Witness([sig, script])
        else:
            tx.vin[0].script_sig = push(sig)
    try:
        verify_input(prevouts, tx, 0, fl)
        got = True
    except BTClibValueError:
        got = False
    return got, honest


@contract("contracts.c_engine.signed_spend_verdict", gen=_gen_signed, props="C08 C04", both_arms=True, n_quick=250, n_thorough=3000,
          rule="single-key CHECKSIG / CHECKSIGVERIFY / CHECKSIGADD spends (tapscript leaf, P2WSH, bare) whose script has 0..5 prefix segments with executed, unexecuted and OP_IF-nested OP_CODESEPARATORs and contracted *VERIFY opcodes; signature by the reference signer over the reference BIP341/BIP143/legacy digest of either the real script code / code-separator position or a wrong one; all sighash types")
class SignedSpendBounded:
    """accepted exactly when the signature commits to the script code (legacy, BIP143: the script
    after the last executed OP_CODESEPARATOR) / opcode position (BIP342) the script really has"""

    def post_accepts_iff_honest(result):
        return result[0] is result[1]


# ---- signature-free tapscripts ---------------------------------------------------------------
def tapscript_verdict(script, inputs, flags):
    """spend `script` as the single leaf of a taproot output, through the script path"""
    internal = _C.mul(7, _C.G)[0].to_bytes(32, "big")
    lh = taproot_ref.leaf_hash(0xC0, script)
    parity, q = taproot_ref.tweak_pubkey(internal, lh)
    return engine_verdict(b"", b"\x51\x20" + q, list(inputs) + [script, bytes([0xC0 | parity]) + internal], flags)


_TAP_FLAGS = [("P2SH", "WITNESS", "TAPROOT"), ("P2SH", "WITNESS", "TAPROOT", "MINIMALDATA"), ("P2SH", "WITNESS", "TAPROOT", "DISCOURAGE_OP_SUCCESS"),
              ("P2SH", "WITNESS", "TAPROOT", "MINIMALIF", "CLEANSTACK")]


def _gen_tapscript(rng):
    c = rng.random()
    if c < 0.55:
        s = _program(rng)
    elif c < 0.7:
        # a byte of every class in a branch that is not taken, or ahead of an OP_SUCCESSx
        b = bytes([rng.choice([0xFF, 0xFF, 0x50, 0x62, 0x65, 0x66, 0x7E, 0x89, 0x8A, 0xBA, 0xBB, 0xFE, 0xAE, 0xAF, 0xB0, 0xB9, 0xAB])])
        s = rng.choice([b"\x00\x63" + b + b"\x68\x51", b"\x51\x63\x51\x67" + b + b"\x68", b + b"\x50", b + b"\x51", b"\x51" + b, b"\x51\x63" + b + b"\x68\x51"])
    elif c < 0.8:
        # OP_SUCCESS and what may surround it: truncated pushes before and after, oversized pushes
        succ = bytes([rng.choice([0x50, 0x62, 0x7E, 0x8D, 0xBB, 0xFE])])
        s = rng.choice([succ + b"\x05\x01", b"\x05\x01" + succ, push(bytes(521)) + succ, succ + push(bytes(521)), b"\x4c" + succ, b"\x6a" + succ, b"\x00\x63" + succ + b"\x68\x51"])
    elif c < 0.9:
        # tapscript has no op-count and no script-size limit; the stack limit stays
        s = rng.choice([b"\x61" * rng.choice([201, 202, 500]) + b"\x51", (push(bytes(500)) + b"\x75") * 21 + b"\x51", b"\x51" * rng.choice([999, 1000, 1001]) + b"\x6d" * 499 + b"\x75" * rng.choice([0, 1, 2])])
    else:
        # MINIMALIF is consensus here
        cond = rng.choice([b"\x02", b"\x01\x00", b"\x80", b"\x00"])
        s = b"\x01" + cond[:1] + rng.choice([b"\x63", b"\x64"]) + b"\x51\x67\x51\x68" if len(cond) == 1 else push(cond) + b"\x63\x51\x67\x51\x68"
    inputs = [rng.choice([b"", b"\x01", b"\x02", bytes(rng.randrange(0, 4))]) for _ in range(rng.choice([0, 0, 1, 2]))]
    if rng.random() < 0.08:
        inputs.append(bytes(rng.choice([520, 521])))
    return dict(script=s, inputs=inputs, flags=rng.choice(_TAP_FLAGS))


@contract("contracts.c_engine.tapscript_verdict", gen=_gen_tapscript, props="C08 C19", n_quick=1200, n_thorough=12000,
          rule="signature-free tapscripts spent through the script path: the programs of EngineVerdictBounded, every class of byte (0xff, reserved, OP_VERIF, legacy-disabled = OP_SUCCESS, CHECKMULTISIG, upgradable NOPs, CHECKSIGADD on an empty stack) in a branch not taken / ahead of an OP_SUCCESSx / executed, OP_SUCCESS next to truncated and oversized pushes, 201..500 executed ops, 10 kB scripts, 999..1001 stack elements, non-minimal conditions; four flag sets")
class TapscriptVerdictBounded:
    """accepts exactly when Core's tapscript execution (OP_SUCCESS pre-scan, initial stack
    limits, EvalScript under SigVersion::TAPSCRIPT, exactly one true element left) accepts"""

    def post_core_verdict(script, inputs, flags, result):
        want = core.verify_tapscript(inputs, script, set(flags))
        return want is None or result is want


# ---- signature and public-key encoding rules under the policy flags -------------------------
from spec.der import is_strict_der_sig  # noqa: E402

_ENC_FLAGS = ["DERSIG", "STRICTENC", "LOW_S", "NULLFAIL", "WITNESS_PUBKEYTYPE", "CONST_SCRIPTCODE"]


def _gen_sigenc(rng):
    return dict(form=rng.choice(["bare", "bare", "p2wsh"]), sig_kind=rng.choice(["valid", "valid", "empty", "empty", "wrongkey", "high-s", "lax", "hashtype0", "hashtype4", "hashtype-acp0", "garbage"]),
                key_kind=rng.choice(["compressed", "compressed", "uncompressed", "hybrid", "short"]), negate=rng.random() < 0.5, op0_prefix=rng.random() < 0.3,
                d=rng.randrange(1, _C.n), flags=tuple(f for f in _ENC_FLAGS if rng.random() < 0.4))


def sig_encoding_verdict(form, sig_kind, key_kind, negate, op0_prefix, d, flags):
    """<key> OP_CHECKSIG [OP_NOT], optionally behind `OP_0 OP_DROP`, spent bare or as P2WSH with a
    signature of the given kind; returns the engine's verdict"""
    P = _C.mul(d, _C.G)
    pk = {"compressed": sec_compressed(P), "uncompressed": b"\x04" + P[0].to_bytes(32, "big") + P[1].to_bytes(32, "big"),
          "hybrid": bytes([6 + (P[1] & 1)]) + P[0].to_bytes(32, "big") + P[1].to_bytes(32, "big"), "short": b"\x02\x01\x02\x03\x04"}[key_kind]
    script = (b"\x00\x75" if op0_prefix else b"") + push(pk) + b"\xac" + (b"\x91" if negate else b"")
    fl = ScriptFlag(0)
    for name in ("P2SH", "WITNESS") + tuple(flags):
        fl |= getattr(ScriptFlag, name)
    spk = script if form == "bare" else b"\x00\x20" + hashlib.sha256(script).digest()
    tx = Tx(2, 0, [TxIn(OutPoint(b"\x04" * 32, 0), b"", 0xFFFFFFFF, Witness([]), check_validity=False)], [TxOut(900, b"\x51")], check_validity=False)
    prevouts = [TxOut(3000, ScriptPubKey(spk, check_validity=False), check_validity=False)]
    ht = {"hashtype0": 0, "hashtype4": 4, "hashtype-acp0": 0x80}.get(sig_kind, 1)
    code = sh.find_and_delete_codeseparators(script.replace(b"\x00\x75", b"", 1) if False else script)
    digest = sh.legacy(code, tx, 0, ht) if form == "bare" else sh.bip143(script, tx, 0, ht, 3000)
    signer = d if sig_kind != "wrongkey" else (d % (_C.n - 1)) + 1
    r, s, _ = sign_raw(_C, int.from_bytes(digest, "big"), signer, int.from_bytes(hashlib.sha256(digest).digest(), "big") % _C.n or 1)
    s = min(s, _C.n - s)
    if sig_kind == "high-s":
        s = _C.n - s
    if sig_kind == "empty":
        sig = b""
    elif sig_kind == "garbage":
        sig = b"\x30\x03\x02\x01" + bytes([ht])
    elif sig_kind == "lax":
        rb = r.to_bytes(33, "big")      # R with null bytes it does not need
        sb = der_sig(r, s)[4 + der_sig(r, s)[3]:]
        body = b"\x02" + bytes([len(rb)]) + rb + sb
        sig = b"\x30" + bytes([len(body)]) + body + bytes([ht])
    else:
        sig = der_sig(r, s) + bytes([ht])
    if form == "bare":
        tx.vin[0].script_sig = push(sig)
    else:
        tx.vin[0].script_witness = Witness([sig, script])
    try:
        verify_input(prevouts, tx, 0, fl)
        return True, sig
    except BTClibValueError:
        return False, sig


@contract("contracts.c_engine.sig_encoding_verdict", gen=_gen_sigenc, props="C08 C04", both_arms=True, n_quick=600, n_thorough=5000,
          rule="<key> CHECKSIG [NOT] (optionally behind OP_0 DROP) bare and P2WSH x signatures {valid, empty, wrong key, high-s, lax DER, hash type 0 / 4 / 0x80, garbage} x keys {compressed, uncompressed, hybrid, malformed} x every subset of DERSIG, STRICTENC, LOW_S, NULLFAIL, WITNESS_PUBKEYTYPE, CONST_SCRIPTCODE")
class SigEncodingBounded:
    """Core's EvalChecksigPreTapscript: FindAndDelete (an error under CONST_SCRIPTCODE when it
    finds the signature push, the empty one being OP_0), then CheckSignatureEncoding (empty is
    allowed; DER under DERSIG|LOW_S|STRICTENC, low s under LOW_S, defined hash type under
    STRICTENC), then CheckPubKeyEncoding -- for an empty signature too -- then the lax
    verification, then NULLFAIL"""

    def post_core_verdict(form, sig_kind, key_kind, negate, op0_prefix, flags, result):
        got, sig = result
        F = set(flags)
        error = False
        if form == "bare" and "CONST_SCRIPTCODE" in F and sig == b"" and op0_prefix:
            error = True
        if not error and sig != b"":
            if F & {"DERSIG", "LOW_S", "STRICTENC"} and not is_strict_der_sig(sig[:-1]):
                error = True
            elif "LOW_S" in F and sig_kind == "high-s":
                error = True
            elif "STRICTENC" in F and not (1 <= (sig[-1] & ~0x80) <= 3):
                error = True
        if not error:
            if "STRICTENC" in F and key_kind in ("hybrid", "short"):
                error = True
            if "WITNESS_PUBKEYTYPE" in F and form == "p2wsh" and key_kind != "compressed":
                error = True
        success = sig_kind in ("valid", "high-s", "lax", "hashtype0", "hashtype4", "hashtype-acp0") and key_kind != "short"
        if not error and not success and "NULLFAIL" in F and sig != b"":
            error = True
        want = (not error) and (success != negate)
        return got is want


# ---- OP_CHECKMULTISIG under the policy flags --------------------------------------------------
_SIG_KINDS = ["valid", "valid", "valid", "empty", "wrongkey", "high-s", "lax", "hashtype0", "garbage"]
_VALID_KINDS = ("valid", "high-s", "lax", "hashtype0")


def _gen_multisig(rng):
    n = rng.choice([1, 2, 3])
    m = rng.randrange(1, n + 1)
    keys = [rng.choice(["compressed", "compressed", "compressed", "uncompressed", "hybrid", "short"]) for _ in range(n)]
    signers = sorted(rng.sample(range(n), m))
    if rng.random() < 0.15:
        rng.shuffle(signers)        # signatures out of key order: fails without an error
    sigs = [(rng.choice(_SIG_KINDS), j) for j in signers]
    return dict(form=rng.choice(["bare", "bare", "p2wsh"]), keys=keys, sigs=sigs, negate=rng.random() < 0.4, op0_prefix=rng.random() < 0.25,
                dummy=rng.choice([b"", b"", b"", b"\x01"]), d=rng.randrange(1, _C.n - 10), flags=tuple(f for f in _ENC_FLAGS + ["NULLDUMMY"] if rng.random() < 0.35))


def _make_sig(kind, prv, digest_of, ht_default=1):
    ht = {"hashtype0": 0}.get(kind, ht_default)
    if kind == "empty":
        return b""
    if kind == "garbage":
        return b"\x30\x03\x02\x01" + bytes([ht])
    digest = digest_of(ht)
    signer = prv if kind != "wrongkey" else (prv + 1000) % _C.n or 1      # a key that is none of the script's
    r, s, _ = sign_raw(_C, int.from_bytes(digest, "big"), signer, int.from_bytes(hashlib.sha256(digest + b"k").digest(), "big") % _C.n or 1)
    s = min(s, _C.n - s)
    if kind == "high-s":
        s = _C.n - s
    if kind == "lax":
        rb = r.to_bytes(33, "big")
        full = der_sig(r, s)
        body = b"\x02" + bytes([len(rb)]) + rb + full[4 + full[3]:]
        return b"\x30" + bytes([len(body)]) + body + bytes([ht])
    return der_sig(r, s) + bytes([ht])


def multisig_verdict(form, keys, sigs, negate, op0_prefix, dummy, d, flags):
    prvs = [d + j for j in range(len(keys))]
    pks = []
    for kind, prv in zip(keys, prvs):
        P = _C.mul(prv, _C.G)
        pks.append({"compressed": sec_compressed(P), "uncompressed": b"\x04" + P[0].to_bytes(32, "big") + P[1].to_bytes(32, "big"),
                    "hybrid": bytes([6 + (P[1] & 1)]) + P[0].to_bytes(32, "big") + P[1].to_bytes(32, "big"), "short": b"\x02\x01\x02\x03\x04"}[kind])
    script = (b"\x00\x75" if op0_prefix else b"") + bytes([0x50 + len(sigs)]) + b"".join(push(k) for k in pks) + bytes([0x50 + len(keys)]) + b"\xae" + (b"\x91" if negate else b"")
    fl = ScriptFlag(0)
    for name in ("P2SH", "WITNESS") + tuple(flags):
        fl |= getattr(ScriptFlag, name)
    spk = script if form == "bare" else b"\x00\x20" + hashlib.sha256(script).digest()
    tx = Tx(2, 0, [TxIn(OutPoint(b"\x06" * 32, 0), b"", 0xFFFFFFFF, Witness([]), check_validity=False)], [TxOut(900, b"\x51")], check_validity=False)
    prevouts = [TxOut(3000, ScriptPubKey(spk, check_validity=False), check_validity=False)]
    digest_of = (lambda ht: sh.legacy(script, tx, 0, ht)) if form == "bare" else (lambda ht: sh.bip143(script, tx, 0, ht, 3000))
    sig_bytes = [_make_sig(kind, prvs[j], digest_of) for kind, j in sigs]
    if form == "bare":
        tx.vin[0].script_sig = push(dummy) + b"".join(push(s) for s in sig_bytes)
    else:
        tx.vin[0].script_witness = Witness([dummy] + sig_bytes + [script])
    try:
        verify_input(prevouts, tx, 0, fl)
        return True, sig_bytes
    except BTClibValueError:
        return False, sig_bytes


@contract("contracts.c_engine.multisig_verdict", gen=_gen_multisig, props="C08 C04", both_arms=True, n_quick=500, n_thorough=4000,
          rule="m-of-n CHECKMULTISIG [NOT] (n <= 3, optionally behind OP_0 DROP) bare and P2WSH x per-signature kinds {valid, empty, wrong key, high-s, lax DER, hash type 0, garbage} in and out of key order x per-key kinds {compressed, uncompressed, hybrid, malformed} x empty / non-empty dummy x every subset of DERSIG, STRICTENC, LOW_S, NULLFAIL, WITNESS_PUBKEYTYPE, CONST_SCRIPTCODE, NULLDUMMY")
class MultisigBounded:
    """Core's OP_CHECKMULTISIG arm: FindAndDelete of every signature push first (an error under
    CONST_SCRIPTCODE when found), then key by key from the top of the stack -- signature encoding,
    key encoding, verification, stop as soon as too few keys remain -- then NULLFAIL over every
    signature element, then NULLDUMMY"""

    def post_core_verdict(form, keys, sigs, negate, op0_prefix, dummy, flags, result):
        got, sig_bytes = result
        F = set(flags)
        v0 = form == "p2wsh"

        def core():
            if form == "bare" and "CONST_SCRIPTCODE" in F and op0_prefix and any(s == b"" for s in sig_bytes):
                return "error"
            nsig, nkey = len(sigs), len(keys)
            isig, ikey = nsig - 1, nkey - 1          # Core walks from the top of the stack: last signature, last key
            success = True
            while success and nsig > 0:
                sig, (kind, signer) = sig_bytes[isig], sigs[isig]
                if sig != b"":
                    if F & {"DERSIG", "LOW_S", "STRICTENC"} and not is_strict_der_sig(sig[:-1]):
                        return "error"
                    if "LOW_S" in F and kind == "high-s":
                        return "error"
                    if "STRICTENC" in F and not (1 <= (sig[-1] & ~0x80) <= 3):
                        return "error"
                if "STRICTENC" in F and keys[ikey] in ("hybrid", "short"):
                    return "error"
                if "WITNESS_PUBKEYTYPE" in F and v0 and keys[ikey] != "compressed":
                    return "error"
                ok = kind in _VALID_KINDS and signer == ikey and keys[ikey] != "short"
                if ok:
                    isig -= 1
                    nsig -= 1
                ikey -= 1
                nkey -= 1
                if nsig > nkey:
                    success = False
            if not success and "NULLFAIL" in F and any(s != b"" for s in sig_bytes):
                return "error"
            if "NULLDUMMY" in F and dummy != b"":
                return "error"
            return success
        r = core()
        want = False if r == "error" else (r != negate)
        return got is want
