"""Contracts: mnemonics and seeds (C13).  Bounded stand-ins against the BIP39 / SLIP39
algorithms recomputed with hashlib, and deductive contracts for the GF(256) and RS1024 kernels
of SLIP39."""
import hashlib
import unicodedata

from btclib.exceptions import BTClibTypeError, BTClibValueError
from btclib.mnemonic import bip39, slip39

from pyvc.api import contract, lemma

LANGS = ["en", "es", "fr", "it", "ja", "ko", "pt", "cs", "zh", "zh_tw", "ru", "tr"]


def _words(lang):
    import os
    d = os.path.join(os.path.dirname(bip39.__file__), "_data")
    files = dict(en="english", es="spanish", fr="french", it="italian", ja="japanese", ko="korean", pt="portuguese", cs="czech",
                 zh="chinese_simplified", zh_tw="chinese_traditional", ru="russian", tr="turkish")
    for name in (files.get(lang, lang) + ".txt",):
        p = os.path.join(d, name)
        if os.path.exists(p):
            return [w.strip() for w in open(p, encoding="utf-8").read().split("\n") if w.strip()]
    raise LookupError(lang)


def ref_bip39_indexes(entropy_bytes):
    """BIP39 'Generating the mnemonic': ENT bits || first ENT/32 bits of SHA256, in 11-bit groups"""
    ent = len(entropy_bytes) * 8
    cs = ent // 32
    bits = bin(int.from_bytes(entropy_bytes, "big"))[2:].zfill(ent) + bin(int.from_bytes(hashlib.sha256(entropy_bytes).digest(), "big"))[2:].zfill(256)[:cs]
    return [int(bits[i:i + 11], 2) for i in range(0, len(bits), 11)]


def _gen_entropy(rng):
    n = rng.choice([16, 20, 24, 28, 32])
    e = bytes(rng.getrandbits(8) for _ in range(n))
    if rng.random() < 0.3:
        e = bytes(rng.choice([1, 2, 4])) + e[rng.choice([1, 2, 4]):][: n - 1]
        e = e.ljust(n, b"\x00")[:n]
    lang = rng.choice(["en", "en", "es", "fr", "it", "ja", "ko", "pt", "cs", "zh", "zh_tw"])
    return dict(entropy=e, lang=lang)


@contract("btclib.mnemonic.bip39.mnemonic_from_entropy", gen=_gen_entropy, props="C13", n_quick=300, n_thorough=6000,
          rule="entropies of 128..256 bits (leading zero bytes included) x wordlist languages")
class Bip39EncodeBounded:
    def post_is_bip39_and_roundtrips(entropy, lang, result):
        try:
            words = _words(lang)
        except LookupError:
            words = None
        want = ref_bip39_indexes(entropy)
        got = unicodedata.normalize("NFKD", result).replace("　", " ").split()
        ok_words = True if words is None else got == [unicodedata.normalize("NFKD", words[i]) for i in want]
        back = bip39.entropy_from_mnemonic(result, lang)
        return ok_words and int(back, 2) == int.from_bytes(entropy, "big") and len(back) == len(entropy) * 8


def _gen_mnemonic_tamper(rng):
    g = _gen_entropy(rng)
    g["lang"] = "en"
    m = bip39.mnemonic_from_entropy(g["entropy"], "en").split()
    words = _words("en")
    valid = True
    c = rng.random()
    if c < 0.5:
        i = rng.randrange(len(m))
        m[i] = rng.choice(words)
        idx = [words.index(w) for w in m]
        bits = "".join(bin(k)[2:].zfill(11) for k in idx)
        ent = len(bits) * 32 // 33
        e = int(bits[:ent], 2).to_bytes(ent // 8, "big")
        valid = ref_bip39_indexes(e) == idx
    elif c < 0.6:
        m = m[:-1]
        valid = False
    return dict(mnemonic=" ".join(m), lang="en", _valid=valid)


@contract("btclib.mnemonic.bip39.entropy_from_mnemonic", gen=_gen_mnemonic_tamper, props="C13 C19", n_quick=400, n_thorough=8000,
          rule="valid English sentences and single-word substitutions / truncations")
class Bip39ChecksumBounded:
    """a sentence is accepted exactly when its checksum is the one BIP39 defines"""

    def raises_BTClibValueError(mnemonic, lang, _valid):
        return not _valid


def _gen_seed(rng):
    g = _gen_entropy(rng)
    m = bip39.mnemonic_from_entropy(g["entropy"], g["lang"])
    return dict(mnemonic=m, passphrase=rng.choice(["", "TREZOR", "pässwörd", "ｆｕｌｌｗｉｄｔｈ", "Å"]))


@contract("btclib.mnemonic.bip39.seed_from_mnemonic", gen=_gen_seed, props="C13", n_quick=40, n_thorough=600,
          rule="random sentences in all languages x passphrases incl. NFKD-sensitive ones")
class Bip39SeedBounded:
    def post_is_pbkdf2(mnemonic, passphrase, result):
        nm = unicodedata.normalize("NFKD", mnemonic)
        want = hashlib.pbkdf2_hmac("sha512", nm.encode(), ("mnemonic" + unicodedata.normalize("NFKD", passphrase)).encode(), 2048, 64)
        return result == want


def slip39_run(secret, groups, group_threshold, passphrase, exponent, extendable, pick_seed):
    """split, then recover from a qualifying subset in shuffled order, from a wrong passphrase,
    and from a non-qualifying subset"""
    import random
    rng = random.Random(pick_seed)
    mn = slip39.mnemonics_from_master_secret(secret, groups, group_threshold, passphrase, exponent, extendable)
    chosen_groups = rng.sample(range(len(groups)), group_threshold)
    subset = []
    for gi in chosen_groups:
        subset += rng.sample(mn[gi], groups[gi][0])
    rng.shuffle(subset)
    good = slip39.master_secret_from_mnemonics(subset, passphrase)
    wrong = slip39.master_secret_from_mnemonics(subset, passphrase + "x")
    # one member short in one group
    short = None
    gi = chosen_groups[0]
    if groups[gi][0] > 1:
        less = [m for m in subset if m not in mn[gi]] + rng.sample(mn[gi], groups[gi][0] - 1)
        try:
            slip39.master_secret_from_mnemonics(less, passphrase)
            short = "accepted"
        except BTClibValueError:
            short = "refused"
    return good, wrong, short


def _gen_slip(rng):
    ng = rng.choice([1, 1, 2, 3])
    groups = []
    for _ in range(ng):
        n = rng.choice([1, 2, 3, 5])
        t = 1 if n == 1 else rng.randrange(2, n + 1)
        groups.append((t, n))
    return dict(secret=bytes(rng.getrandbits(8) for _ in range(rng.choice([16, 32]))), groups=groups, group_threshold=rng.randrange(1, ng + 1),
                passphrase=rng.choice(["", "TREZOR", "abc"]), exponent=rng.choice([0, 1]), extendable=rng.random() < 0.5, pick_seed=rng.getrandbits(30))


@contract("contracts.c_mnemonic.slip39_run", gen=_gen_slip, props="C13", n_quick=25, n_thorough=400,
          rule="1..3 groups of 1..5 members, every threshold, iteration exponents 0/1, extendable flag; one qualifying subset in random order, a wrong passphrase, one member short")
class Slip39Bounded:
    def post_threshold_recovery(secret, result):
        good, wrong, short = result
        return good == secret and wrong != secret and short in (None, "refused")


# ---------------------------------------------------------------- deductive kernels
@lemma("slip39.gf256_tables_are_the_field", types=dict(), props="C13")
def gf256_ground():
    """ground obligation on the live tables: exp/log are inverse bijections of GF(2^8)* generated
    by x+1 modulo x^8+x^4+x^3+x+1 (Rijndael)"""
    exp, log = slip39._gf256_tables()
    ok = len(exp) >= 255 and len(log) == 256
    x = 1
    for i in range(255):
        ok = ok and exp[i] == x and log[x] == i
        x2 = (x << 1) ^ x
        if x2 & 0x100:
            x2 ^= 0x11B
        x = x2
    return ok and x == 1


@lemma("slip39.rs1024_checksum_closure", types=dict(data="list[bv10;1..6]"), props="C13", bv=True)
def rs1024_closure(data):
    """a created checksum verifies (all 10-bit symbols, 1..6 data symbols)"""
    chk = slip39._rs1024_checksum(data, True)
    return slip39._rs1024_verify(data + chk, True) and len(chk) == 3
