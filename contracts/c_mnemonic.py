"""Contracts: mnemonics and seeds (C13).  Bounded stand-ins against the BIP39 / SLIP39
algorithms recomputed with hashlib, and deductive contracts for the GF(256) and RS1024 kernels
of SLIP39."""
import hashlib
import unicodedata

from btclib.exceptions import BTClibTypeError, BTClibValueError
from btclib.mnemonic import bip39, slip39

from pyvc.api import contract, lemma

LANGS = ["en", "es", "fr", "it", "ja", "ko", "pt", "cs", "zh", "zh_tw", "ru", "tr"]


def _words(lang):
    import os
    d = os.path.join(os.path.dirname(bip39.__file__), "_data")
    files = dict(en="english", es="spanish", fr="french", it="italian", ja="japanese", ko="korean", pt="portuguese", cs="czech",
                 zh="chinese_simplified", zh_tw="chinese_traditional", ru="russian", tr="turkish")
    for name in (files.get(lang, lang) + ".txt",):
        p = os.path.join(d, name)
        if os.path.exists(p):
            return [w.strip() for w in open(p, encoding="utf-8").read().split("\n") if w.strip()]
    raise LookupError(lang)


def ref_bip39_indexes(entropy_bytes):
    """BIP39 'Generating the mnemonic': ENT bits || first ENT/32 bits of SHA256, in 11-bit groups"""
    ent = len(entropy_bytes) * 8
    cs = ent // 32
    bits = bin(int.from_bytes(entropy_bytes, "big"))[2:].zfill(ent) + bin(int.from_bytes(hashlib.sha256(entropy_bytes).digest(), "big"))[2:].zfill(256)[:cs]
    return [int(bits[i:i + 11], 2) for i in range(0, len(bits), 11)]


def _gen_entropy(rng):
    n = rng.choice([16, 20, 24, 28, 32])
    e = bytes(rng.getrandbits(8) for _ in range(n))
    if rng.random() < 0.3:
        e = bytes(rng.choice([1, 2, 4])) + e[rng.choice([1, 2, 4]):][: n - 1]
        e = e.ljust(n, b"\x00")[:n]
    lang = rng.choice(["en", "en", "es", "fr", "it", "ja", "ko", "pt", "cs", "zh", "zh_tw"])
    return dict(entropy=e, lang=lang)


@contract("btclib.mnemonic.bip39.mnemonic_from_entropy", gen=_gen_entropy, props="C13", n_quick=300, n_thorough=6000,
          rule="entropies of 128..256 bits (leading zero bytes included) x wordlist languages")
class Bip39EncodeBounded:
    def post_is_bip39_and_roundtrips(entropy, lang, result):
        try:
            words = _words(lang)
        except LookupError:
            words = None
        want = ref_bip39_indexes(entropy)
        got = unicodedata.normalize("NFKD", result).replace("　", " ").split()
        ok_words = True if words is None else got == [unicodedata.normalize("NFKD", words[i]) for i in want]
        back = bip39.entropy_from_mnemonic(result, lang)
        return ok_words and int(back, 2) == int.from_bytes(entropy, "big") and len(back) == len(entropy) * 8


def _gen_mnemonic_tamper(rng):
    g = _gen_entropy(rng)
    g["lang"] = "en"
    m = bip39.mnemonic_from_entropy(g["entropy"], "en").split()
    words = _words("en")
    valid = True
    c = rng.random()
    if c < 0.5:
        i = rng.randrange(len(m))
        m[i] = rng.choice(words)
        idx = [words.index(w) for w in m]
        bits = "".join(bin(k)[2:].zfill(11) for k in idx)
        ent = len(bits) * 32 // 33
        e = int(bits[:ent], 2).to_bytes(ent // 8, "big")
        valid = ref_bip39_indexes(e) == idx
    elif c < 0.6:
        m = m[:-1]
        valid = False
    return dict(mnemonic=" ".join(m), lang="en", _valid=valid)


@contract("btclib.mnemonic.bip39.entropy_from_mnemonic", gen=_gen_mnemonic_tamper, props="C13 C19", n_quick=400, n_thorough=8000,
          rule="valid English sentences and single-word substitutions / truncations")
class Bip39ChecksumBounded:
    """a sentence is accepted exactly when its checksum is the one BIP39 defines"""

    def raises_BTClibValueError(mnemonic, lang, _valid):
        return not _valid


def _gen_seed(rng):
    g = _gen_entropy(rng)
    m = bip39.mnemonic_from_entropy(g["entropy"], g["lang"])
    return dict(mnemonic=m, passphrase=rng.choice(["", "TREZOR", "pässwörd", "ｆｕｌｌｗｉｄｔｈ", "Å"]))


@contract("btclib.mnemonic.bip39.seed_from_mnemonic", gen=_gen_seed, props="C13", n_quick=40, n_thorough=600,
          rule="random sentences in all languages x passphrases incl. NFKD-sensitive ones")
class Bip39SeedBounded:
    def post_is_pbkdf2(mnemonic, passphrase, result):
        nm = unicodedata.normalize("NFKD", mnemonic)
        want = hashlib.pbkdf2_hmac("sha512", nm.encode(), ("mnemonic" + unicodedata.normalize("NFKD", passphrase)).encode(), 2048, 64)
        return result == want


def slip39_run(secret, groups, group_threshold, passphrase, exponent, extendable, pick_seed):
    """split, then recover from a qualifying subset in shuffled order, from a wrong passphrase,
    and from a non-qualifying subset"""
    import random
    rng = random.Random(pick_seed)
    mn = slip39.mnemonics_from_master_secret(secret, groups, group_threshold, passphrase, exponent, extendable)
    chosen_groups = rng.sample(range(len(groups)), group_threshold)
    subset = []
    for gi in chosen_groups:
        subset += rng.sample(mn[gi], groups[gi][0])
    rng.shuffle(subset)
    good = slip39.master_secret_from_mnemonics(subset, passphrase)
    wrong = slip39.master_secret_from_mnemonics(subset, passphrase + "x")
    # one member short in one group
    short = None
    gi = chosen_groups[0]
    if groups[gi][0] > 1:
        less = [m for m in subset if m not in mn[gi]] + rng.sample(mn[gi], groups[gi][0] - 1)
        try:
            slip39.master_secret_from_mnemonics(less, passphrase)
            short = "accepted"
        except BTClibValueError:
            short = "refused"
    return good, wrong, short


def _gen_slip(rng):
    ng = rng.choice([1, 1, 2, 3])
    groups = []
    for _ in range(ng):
        n = rng.choice([1, 2, 3, 5])
        t = 1 if n == 1 else rng.randrange(2, n + 1)
        groups.append((t, n))
    return dict(secret=bytes(rng.getrandbits(8) for _ in range(rng.choice([16, 18, 20, 24, 28, 32, 32, 48, 64]))), groups=groups, group_threshold=rng.randrange(1, ng + 1),
                passphrase=rng.choice(["", "TREZOR", "abc"]), exponent=rng.choice([0, 1]), extendable=rng.random() < 0.5, pick_seed=rng.getrandbits(30))


@contract("contracts.c_mnemonic.slip39_run", gen=_gen_slip, props="C13", n_quick=25, n_thorough=200,
          rule="master secrets of 16..64 bytes (every padding width), 1..3 groups of 1..5 members, every threshold, iteration exponents 0/1, extendable flag; one qualifying subset in random order, a wrong passphrase, one member short")
class Slip39Bounded:
    def post_threshold_recovery(secret, result):
        good, wrong, short = result
        return good == secret and wrong != secret and short in (None, "refused")


# ---------------------------------------------------------------- Electrum, BIP85
_ELECTRUM_PREFIX = {"standard": "01", "segwit": "100", "2fa": "101", "2fa_segwit": "102"}
# the ranges of Electrum's CJK_INTERVALS that the twelve word-lists reach after NFKD
_CJK = ((0x4E00, 0x9FFF), (0x3400, 0x4DBF), (0x3040, 0x309F), (0x30A0, 0x30FF), (0xAC00, 0xD7AF), (0x1100, 0x11FF), (0x3130, 0x318F), (0xFF00, 0xFFEF), (0xF900, 0xFAFF))


def _electrum_normalize(text):
    """Electrum's normalize_text (mnemonic.py): NFKD, lower, no combining marks, whitespace
    collapsed, whitespace between two CJK characters removed"""
    import string
    text = unicodedata.normalize("NFKD", text).lower()
    text = "".join(c for c in text if not unicodedata.combining(c))
    text = " ".join(text.split())
    cjk = lambda c: any(a <= ord(c) <= b for a, b in _CJK)
    return "".join(text[i] for i in range(len(text)) if not (text[i] in string.whitespace and cjk(text[i - 1]) and cjk(text[i + 1])))


def _electrum_version_prefix(mnemonic):
    import hmac
    return hmac.new(b"Seed version", _electrum_normalize(mnemonic).encode(), hashlib.sha512).hexdigest()


def electrum_run(mnemonic_type, entropy, lang):
    from btclib.mnemonic import electrum
    try:
        m = electrum.mnemonic_from_entropy(mnemonic_type, entropy, lang)
    except BTClibValueError:
        return None
    version, _ = electrum.version_from_mnemonic(m)
    back = int(electrum.entropy_from_mnemonic(m, lang), 2)
    again = electrum.mnemonic_from_entropy(mnemonic_type, back - 1, lang)
    # one word replaced: accepted exactly when the hash of the sentence still starts with a version
    words = m.split()
    alt = list(words)
    alt[entropy % len(alt)] = words[(entropy // 7) % len(words)]
    tampered = " ".join(alt)
    try:
        tv = electrum.version_from_mnemonic(tampered)[0]
    except BTClibValueError:
        tv = None
    return m, version, back, again, tampered, tv


def _gen_electrum(rng):
    lang = rng.choice(["en", "en", "es", "ja", "zh", "zh_tw", "ko", "it", "fr", "pt", "cs"])
    t = rng.choice(["standard", "segwit", "2fa", "2fa", "2fa_segwit"])
    bits = rng.choice([121, 125, 132, 132, 132, 140, 220, 264])       # 11..24 words of a 2048-word list
    return dict(mnemonic_type=t, entropy=rng.randrange(2 ** (bits - 1), 2 ** bits), lang=lang)


@contract("contracts.c_mnemonic.electrum_run", gen=_gen_electrum, props="C13", n_quick=40, n_thorough=150,
          rule="four seed versions x eleven languages (CJK included) x entropies worth 11..24 words; one-word substitution")
class ElectrumBounded:
    """the sentence written for a version is read back as that version, its HMAC('Seed version')
    starts with the version's prefix, it decodes (least significant word first) to the entropy
    it was searched from, and a substituted sentence is accepted exactly when its own hash
    starts with a version prefix (2fa: 12 or >= 20 words)"""

    def post_versioned_roundtrip(mnemonic_type, entropy, lang, result):
        if result is None:
            # refused: only '2fa' can be, when the entropy is not worth 12 or >= 20 words
            base = 1626 if lang == "pt" else 2048
            n, e = 0, entropy + 1
            while e:
                e //= base
                n += 1
            return mnemonic_type == "2fa" and n != 12 and n < 20
        m, version, back, again, tampered, tv = result
        h = _electrum_version_prefix(m)
        ok = version == mnemonic_type and h.startswith(_ELECTRUM_PREFIX[mnemonic_type]) and back > entropy and again == m
        try:
            words = _words(lang) if lang != "pt" else None
        except LookupError:
            words = None
        if words is not None:
            nm = [unicodedata.normalize("NFKD", w) for w in words]
            idx = [nm.index(w) for w in unicodedata.normalize("NFKD", m).split()]
            ok = ok and sum(k * len(words) ** i for i, k in enumerate(idx)) == back
        th = _electrum_version_prefix(tampered)
        n = len(tampered.split())
        want = None
        for name, pre in _ELECTRUM_PREFIX.items():
            if th.startswith(pre) and not (name == "2fa" and n != 12 and n < 20):
                want = name
                break
        return ok and (tv == want or tv == "old")


def _gen_bip85(rng):
    from spec import bip32_ref as R
    seed = bytes(rng.getrandbits(8) for _ in range(32))
    root = R.master(seed, bytes.fromhex("0488ade4"))
    if root is None:
        raise ValueError("no master key")
    app = rng.choice([[128169, rng.choice([16, 32, 64])], [39, 0, rng.choice([12, 18, 24])], [2], [32]])
    index = rng.randrange(0, 2 ** 31)
    if rng.random() < 0.4:
        # steer to a derived key with a leading zero byte (one index in 256): the parent is derived
        # once, and each candidate index costs one HMAC (BIP32 private -> private hardened step)
        import hmac
        from spec.ec_ref import SECP256K1 as C
        parent = R.derive(root, [R.HARD + 83696968] + [R.HARD + a for a in app])
        kpar = int.from_bytes(parent["key"][1:], "big")
        for index in range(index, index + 4000):
            i = R.HARD + (index % 2 ** 31)
            I = hmac.new(parent["chain"], parent["key"] + i.to_bytes(4, "big"), "sha512").digest()
            il = int.from_bytes(I[:32], "big")
            child = (il + kpar) % C.n
            if il < C.n and child and child < 2 ** 248:
                break
    index %= 2 ** 31
    return dict(seed=seed, app=app, index=index)


def bip85_run(seed, app, index):
    from btclib import bip85
    from btclib.bip32 import rootxprv_from_seed
    root = rootxprv_from_seed(seed)
    path = "m/83696968h/" + "/".join(f"{a}h" for a in app) + f"/{index}h"
    out = [bip85.entropy_from_der_path(root, path)]
    if app[0] == 128169:
        out.append(bip85.bytes_entropy_from_root_key(root, app[1], index))
    elif app[0] == 39:
        out.append(bip85.mnemonic_from_root_key(root, app[2], "en", index))
    elif app[0] == 2:
        out.append(bip85.wif_from_root_key(root, index))
    else:
        out.append(bip85.xprv_from_root_key(root, index))
    return out


@contract("contracts.c_mnemonic.bip85_run", gen=_gen_bip85, props="C13", n_quick=80, n_thorough=2000,
          rule="random 32-byte seeds x applications HEX / BIP39 / WIF / XPRV x indexes, 40% steered to derived keys with a leading zero byte")
class Bip85Bounded:
    """BIP85: entropy = HMAC-SHA512('bip-entropy-from-k', the 32 bytes of the derived private key),
    the key derived by an independent BIP32; applications cut it as the BIP says"""

    def post_is_hmac_of_derived_key(seed, app, index, result):
        import hmac
        from spec import bip32_ref as R
        from spec.base58_ref import check_encode as b58check_encode
        root = R.master(seed, bytes.fromhex("0488ade4"))
        k = R.derive(root, [R.HARD + 83696968] + [R.HARD + a for a in app] + [R.HARD + index])
        ent = hmac.new(b"bip-entropy-from-k", k["key"][1:], "sha512").digest()
        ok = result[0] == ent
        if app[0] == 128169:
            ok = ok and result[1] == ent[:app[1]]
        elif app[0] == 39:
            n = {12: 16, 18: 24, 24: 32}[app[2]]
            idx = ref_bip39_indexes(ent[:n])
            words = _words("en")
            ok = ok and result[1].split() == [words[i] for i in idx]
        elif app[0] == 2:
            ok = ok and result[1] == b58check_encode(b"\x80" + ent[:32] + b"\x01")
        else:
            xk = dict(version=bytes.fromhex("0488ade4"), depth=0, fingerprint=bytes(4), index=0, chain=ent[:32], key=b"\x00" + ent[32:])
            ok = ok and result[1] == b58check_encode(R.serialize(xk))
        return ok


# ---------------------------------------------------------------- deductive kernels
@lemma("slip39.gf256_tables_are_the_field", types=dict(), props="C13")
def gf256_ground():
    """ground obligation on the live tables: exp/log are inverse bijections of GF(2^8)* generated
    by x+1 modulo x^8+x^4+x^3+x+1 (Rijndael)"""
    exp, log = slip39._gf256_tables()
    ok = len(exp) >= 255 and len(log) == 256
    x = 1
    for i in range(255):
        ok = ok and exp[i] == x and log[x] == i
        x2 = (x << 1) ^ x
        if x2 & 0x100:
            x2 ^= 0x11B
        x = x2
    return ok and x == 1


@lemma("slip39.rs1024_checksum_closure", types=dict(data="list[bv10;1..6]"), props="C13", bv=True)
def rs1024_closure(data):
    """a created checksum verifies (all 10-bit symbols, 1..6 data symbols)"""
    chk = slip39._rs1024_checksum(data, True)
    return slip39._rs1024_verify(data + chk, True) and len(chk) == 3
