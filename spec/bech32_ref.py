"""Reference Bech32 / Bech32m (BIP173 / BIP350 reference implementation by Pieter Wuille,
transcribed), segwit address decode/encode."""

CHARSET = "qpzry9x8gf2tvdw0s3jn54khce6mua7l"
BECH32_CONST = 1
BECH32M_CONST = 0x2BC830A3
GEN = [0x3B6A57B2, 0x26508E6D, 0x1EA119FA, 0x3D4233DD, 0x2A1462B3]


def polymod(values):
    chk = 1
    for v in values:
        b = chk >> 25
        chk = (chk & 0x1FFFFFF) << 5 ^ v
        for i in range(5):
            chk ^= GEN[i] if ((b >> i) & 1) else 0
    return chk


def hrp_expand(hrp):
    return [ord(x) >> 5 for x in hrp] + [0] + [ord(x) & 31 for x in hrp]


def verify_checksum(hrp, data):
    const = polymod(hrp_expand(hrp) + data)
    if const == BECH32_CONST:
        return "bech32"
    if const == BECH32M_CONST:
        return "bech32m"
    return None


def create_checksum(hrp, data, const):
    values = hrp_expand(hrp) + data
    pm = polymod(values + [0, 0, 0, 0, 0, 0]) ^ const
    return [(pm >> 5 * (5 - i)) & 31 for i in range(6)]


def bech32_encode(hrp, data, const):
    combined = data + create_checksum(hrp, data, const)
    return hrp + "1" + "".join([CHARSET[d] for d in combined])


def bech32_decode(bech):
    if (any(ord(x) < 33 or ord(x) > 126 for x in bech)) or (bech.lower() != bech and bech.upper() != bech):
        return (None, None, None)
    bech = bech.lower()
    pos = bech.rfind("1")
    if pos < 1 or pos + 7 > len(bech) or len(bech) > 90:
        return (None, None, None)
    if not all(x in CHARSET for x in bech[pos + 1:]):
        return (None, None, None)
    hrp = bech[:pos]
    data = [CHARSET.find(x) for x in bech[pos + 1:]]
    spec = verify_checksum(hrp, data)
    if spec is None:
        return (None, None, None)
    return (hrp, data[:-6], spec)


def convertbits(data, frombits, tobits, pad=True):
    acc = 0
    bits = 0
    ret = []
    maxv = (1 << tobits) - 1
    max_acc = (1 << (frombits + tobits - 1)) - 1
    for value in data:
        if value < 0 or (value >> frombits):
            return None
        acc = ((acc << frombits) | value) & max_acc
        bits += frombits
        while bits >= tobits:
            bits -= tobits
            ret.append((acc >> bits) & maxv)
    if pad:
        if bits:
            ret.append((acc << (tobits - bits)) & maxv)
    elif bits >= frombits or ((acc << (tobits - bits)) & maxv):
        return None
    return ret


def segwit_decode(hrp, addr):
    hrpgot, data, spec = bech32_decode(addr)
    if hrpgot != hrp:
        return (None, None)
    decoded = convertbits(data[1:], 5, 8, False)
    if decoded is None or len(decoded) < 2 or len(decoded) > 40:
        return (None, None)
    if data[0] > 16:
        return (None, None)
    if data[0] == 0 and len(decoded) != 20 and len(decoded) != 32:
        return (None, None)
    if data[0] == 0 and spec != "bech32" or data[0] != 0 and spec != "bech32m":
        return (None, None)
    return (data[0], decoded)


def segwit_encode(hrp, witver, witprog):
    const = BECH32_CONST if witver == 0 else BECH32M_CONST
    ret = bech32_encode(hrp, [witver] + convertbits(witprog, 8, 5), const)
    if segwit_decode(hrp, ret) == (None, None):
        return None
    return ret
