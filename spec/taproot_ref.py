"""Reference BIP341 constructions (the BIP's own Python snippets: taproot_tweak_pubkey,
taproot_tweak_seckey, taproot_tree_helper, and the script-path validation rule), on
spec/ec_ref.py.  A script tree is btclib's nested-list form: [(version, script_bytes)] is a
leaf, [left, right] a branch."""
import hashlib

from spec.codec import enc_varbytes
from spec.ec_ref import SECP256K1 as C


def tagged_hash(tag, msg):
    t = hashlib.sha256(tag.encode() if isinstance(tag, str) else tag).digest()
    return hashlib.sha256(t + t + msg).digest()


def tweak_pubkey(xonly, h):
    """(parity, output x-only bytes) or None where BIP341 raises"""
    t = int.from_bytes(tagged_hash("TapTweak", xonly + h), "big")
    if t >= C.n:
        return None
    P = C.lift_x(int.from_bytes(xonly, "big"), even=True)
    if P is None:
        return None
    Q = C.add(P, C.mul(t, C.G))
    if Q is None:
        return None
    return (Q[1] & 1, Q[0].to_bytes(32, "big"))


def tweak_seckey(d, h):
    P = C.mul(d, C.G)
    d = d if P[1] % 2 == 0 else C.n - d
    t = int.from_bytes(tagged_hash("TapTweak", P[0].to_bytes(32, "big") + h), "big")
    if t >= C.n:
        return None
    return (d + t) % C.n


def leaf_hash(version, script_bytes):
    return tagged_hash("TapLeaf", bytes([version & 0xFE]) + enc_varbytes(script_bytes))


def tree_helper(tree):
    """([(leaf, path)], root hash)"""
    if len(tree) == 1:
        version, script = tree[0]
        return ([((version & 0xFE, script), b"")], leaf_hash(version, script))
    left, lh = tree_helper(tree[0])
    right, rh = tree_helper(tree[1])
    ret = [(l, c + rh) for l, c in left] + [(l, c + lh) for l, c in right]
    if rh < lh:
        lh, rh = rh, lh
    return (ret, tagged_hash("TapBranch", lh + rh))


def control_verifies(q_xonly, script_bytes, control):
    """BIP341 'Script validation rules' for the script path, without the size limits"""
    if len(control) < 33 or (len(control) - 33) % 32 != 0 or (len(control) - 33) // 32 > 128:
        return None
    k = leaf_hash(control[0], script_bytes)
    for j in range((len(control) - 33) // 32):
        e = control[33 + 32 * j: 65 + 32 * j]
        k = tagged_hash("TapBranch", k + e) if k < e else tagged_hash("TapBranch", e + k)
    r = tweak_pubkey(control[1:33], k)
    if r is None:
        return None
    return r[1] == q_xonly and r[0] == (control[0] & 1)
