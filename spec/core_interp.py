"""Spec: a signature-free subset of Bitcoin Core's EvalScript / VerifyScript
(script/interpreter.cpp), transcribed: pushes with MINIMALDATA, the numeric, stack, hash and
flow-control opcodes, the 201-op / 520-byte / 1000-element / 10000-byte limits, MINIMALIF,
P2SH and P2WSH wrapping with the witness stack limits, CLEANSTACK.  Returns True (accepted) or
False (any script error).  No signature opcodes: generated programs do not contain them."""
import hashlib

from spec.core_script import (cast_to_bool, is_minimally_encoded, num_operand, scriptnum_serialize,
                              scriptnum_set_vch)

MAX_SCRIPT_SIZE, MAX_ELEM, MAX_OPS, MAX_STACK = 10000, 520, 201, 1000
OP = dict(OP_0=0, OP_PUSHDATA1=0x4C, OP_PUSHDATA2=0x4D, OP_PUSHDATA4=0x4E, OP_1NEGATE=0x4F, OP_1=0x51, OP_16=0x60, OP_NOP=0x61, OP_IF=0x63, OP_NOTIF=0x64,
          OP_ELSE=0x67, OP_ENDIF=0x68, OP_VERIFY=0x69, OP_RETURN=0x6A, OP_TOALTSTACK=0x6B, OP_FROMALTSTACK=0x6C, OP_2DROP=0x6D, OP_2DUP=0x6E,
          OP_3DUP=0x6F, OP_2OVER=0x70, OP_2ROT=0x71, OP_2SWAP=0x72, OP_IFDUP=0x73, OP_DEPTH=0x74, OP_DROP=0x75, OP_DUP=0x76, OP_NIP=0x77,
          OP_OVER=0x78, OP_PICK=0x79, OP_ROLL=0x7A, OP_ROT=0x7B, OP_SWAP=0x7C, OP_TUCK=0x7D, OP_SIZE=0x82, OP_EQUAL=0x87, OP_EQUALVERIFY=0x88,
          OP_1ADD=0x8B, OP_1SUB=0x8C, OP_NEGATE=0x8F, OP_ABS=0x90, OP_NOT=0x91, OP_0NOTEQUAL=0x92, OP_ADD=0x93, OP_SUB=0x94, OP_BOOLAND=0x9A,
          OP_BOOLOR=0x9B, OP_NUMEQUAL=0x9C, OP_NUMEQUALVERIFY=0x9D, OP_NUMNOTEQUAL=0x9E, OP_LESSTHAN=0x9F, OP_GREATERTHAN=0xA0,
          OP_LESSTHANOREQUAL=0xA1, OP_GREATERTHANOREQUAL=0xA2, OP_MIN=0xA3, OP_MAX=0xA4, OP_WITHIN=0xA5, OP_RIPEMD160=0xA6, OP_SHA1=0xA7,
          OP_SHA256=0xA8, OP_HASH160=0xA9, OP_HASH256=0xAA)
DISABLED = {0x7E, 0x7F, 0x80, 0x81, 0x83, 0x84, 0x85, 0x86, 0x8D, 0x8E, 0x95, 0x96, 0x97, 0x98, 0x99}


class Err(Exception):
    pass


class NotModelled(Exception):
    """the verdict depends on a real signature verification: outside this transcription"""


def _minimal_push(data, opcode):
    if len(data) == 0:
        return opcode == 0
    if len(data) == 1 and 1 <= data[0] <= 16:
        return False
    if len(data) == 1 and data[0] == 0x81:
        return False
    if len(data) <= 75:
        return opcode == len(data)
    if len(data) <= 255:
        return opcode == 0x4C
    if len(data) <= 65535:
        return opcode == 0x4D
    return True


OP_SUCCESS = {80, 98, 126, 127, 128, 129, 131, 132, 133, 134, 137, 138, 141, 142, 149, 150, 151, 152, 153} | set(range(187, 255))
UPGRADABLE_NOPS = {0xB0, 0xB3, 0xB4, 0xB5, 0xB6, 0xB7, 0xB8, 0xB9}


def eval_script(stack, script, minimaldata, minimalif_mode, tapscript=False, budget=None, flags=()):
    """minimalif_mode: 'never' (legacy), 'flag' handled by the caller passing True/False;
    tapscript: SigVersion::TAPSCRIPT (no script-size and op-count limits, MINIMALIF is consensus)"""
    if not tapscript and len(script) > MAX_SCRIPT_SIZE:
        raise Err("script size")
    alt = []
    vf = []
    nops = 0
    i = 0
    n = len(script)

    def num(v):
        ok, a = num_operand(v, minimaldata, 4)
        if not ok:
            raise Err("num")
        return a

    def pop():
        if not stack:
            raise Err("stack")
        return stack.pop()
    while i < n:
        fexec = all(vf)
        op = script[i]
        i += 1
        data = None
        if op <= 0x4E:
            if op < 0x4C:
                ln = op
            else:
                w = {0x4C: 1, 0x4D: 2, 0x4E: 4}[op]
                if i + w > n:
                    raise Err("bad opcode")
                ln = int.from_bytes(script[i:i + w], "little")
                i += w
            if i + ln > n:
                raise Err("bad opcode")
            data = script[i:i + ln]
            i += ln
            if len(data) > MAX_ELEM:
                raise Err("push size")
        if op > 0x60 and not tapscript:
            nops += 1
            if nops > MAX_OPS:
                raise Err("op count")
        if op in DISABLED:
            raise Err("disabled")
        if fexec and data is not None:
            if minimaldata and not _minimal_push(data, op):
                raise Err("minimaldata")
            stack.append(data)
        elif fexec or (0x63 <= op <= 0x68):
            if op == 0x4F or 0x51 <= op <= 0x60:
                stack.append(scriptnum_serialize(op - 0x50))
            elif op == 0x61 or op in UPGRADABLE_NOPS:
                pass            # NOP1, NOP4..NOP10 without DISCOURAGE_UPGRADABLE_NOPS (not generated)
            elif op in (0x63, 0x64):
                value = False
                if fexec:
                    v = pop() if stack else (_ for _ in ()).throw(Err("unbalanced"))
                    if (minimalif_mode or tapscript) and v not in (b"", b"\x01"):
                        raise Err("minimalif")
                    value = cast_to_bool(v)
                    if op == 0x64:
                        value = not value
                vf.append(value)
            elif op == 0x67:
                if not vf:
                    raise Err("unbalanced")
                vf[-1] = not vf[-1]
            elif op == 0x68:
                if not vf:
                    raise Err("unbalanced")
                vf.pop()
            elif op == 0x69:
                if not cast_to_bool(pop()):
                    raise Err("verify")
            elif op == 0x6A:
                raise Err("op_return")
            elif op == 0x6B:
                alt.append(pop())
            elif op == 0x6C:
                if not alt:
                    raise Err("altstack")
                stack.append(alt.pop())
            elif op == 0x6D:
                pop(); pop()
            elif op == 0x6E:
                if len(stack) < 2:
                    raise Err("stack")
                stack.extend(stack[-2:])
            elif op == 0x6F:
                if len(stack) < 3:
                    raise Err("stack")
                stack.extend(stack[-3:])
            elif op == 0x70:
                if len(stack) < 4:
                    raise Err("stack")
                stack.extend(stack[-4:-2])
            elif op == 0x71:
                if len(stack) < 6:
                    raise Err("stack")
                a = stack[-6:-4]
                del stack[-6:-4]
                stack.extend(a)
            elif op == 0x72:
                if len(stack) < 4:
                    raise Err("stack")
                stack[-4:] = stack[-2:] + stack[-4:-2]
            elif op == 0x73:
                if not stack:
                    raise Err("stack")
                if cast_to_bool(stack[-1]):
                    stack.append(stack[-1])
            elif op == 0x74:
                stack.append(scriptnum_serialize(len(stack)))
            elif op == 0x75:
                pop()
            elif op == 0x76:
                if not stack:
                    raise Err("stack")
                stack.append(stack[-1])
            elif op == 0x77:
                if len(stack) < 2:
                    raise Err("stack")
                del stack[-2]
            elif op == 0x78:
                if len(stack) < 2:
                    raise Err("stack")
                stack.append(stack[-2])
            elif op in (0x79, 0x7A):
                if len(stack) < 2:
                    raise Err("stack")
                k = num(pop())
                if k < 0 or k >= len(stack):
                    raise Err("stack")
                v = stack[-k - 1]
                if op == 0x7A:
                    del stack[-k - 1]
                stack.append(v)
            elif op == 0x7B:
                if len(stack) < 3:
                    raise Err("stack")
                stack[-3:] = [stack[-2], stack[-1], stack[-3]]
            elif op == 0x7C:
                if len(stack) < 2:
                    raise Err("stack")
                stack[-2:] = [stack[-1], stack[-2]]
            elif op == 0x7D:
                if len(stack) < 2:
                    raise Err("stack")
                stack.insert(-2, stack[-1])
            elif op == 0x82:
                if not stack:
                    raise Err("stack")
                stack.append(scriptnum_serialize(len(stack[-1])))
            elif op in (0x87, 0x88):
                if len(stack) < 2:
                    raise Err("stack")
                b, a = pop(), pop()
                eq = a == b
                stack.append(b"\x01" if eq else b"")
                if op == 0x88:
                    if not eq:
                        raise Err("equalverify")
                    stack.pop()
            elif op in (0x8B, 0x8C, 0x8F, 0x90, 0x91, 0x92):
                a = num(pop())
                r = {0x8B: a + 1, 0x8C: a - 1, 0x8F: -a, 0x90: abs(a), 0x91: int(a == 0), 0x92: int(a != 0)}[op]
                stack.append(scriptnum_serialize(r))
            elif op in (0x93, 0x94, 0x9A, 0x9B, 0x9C, 0x9D, 0x9E, 0x9F, 0xA0, 0xA1, 0xA2, 0xA3, 0xA4):
                if len(stack) < 2:
                    raise Err("stack")
                b = num(stack[-1])
                a = num(stack[-2])
                stack.pop(); stack.pop()
                r = {0x93: a + b, 0x94: a - b, 0x9A: int(a != 0 and b != 0), 0x9B: int(a != 0 or b != 0), 0x9C: int(a == b), 0x9D: int(a == b),
                     0x9E: int(a != b), 0x9F: int(a < b), 0xA0: int(a > b), 0xA1: int(a <= b), 0xA2: int(a >= b), 0xA3: min(a, b), 0xA4: max(a, b)}[op]
                stack.append(scriptnum_serialize(r))
                if op == 0x9D:
                    if not cast_to_bool(stack[-1]):
                        raise Err("numequalverify")
                    stack.pop()
            elif op == 0xA5:
                if len(stack) < 3:
                    raise Err("stack")
                x, mn, mx = num(stack[-3]), num(stack[-2]), num(stack[-1])
                del stack[-3:]
                stack.append(b"\x01" if mn <= x < mx else b"")
            elif op in (0xA6, 0xA7, 0xA8, 0xA9, 0xAA):
                v = pop()
                if op == 0xA6:
                    h = hashlib.new("ripemd160", v).digest()
                elif op == 0xA7:
                    h = hashlib.sha1(v).digest()
                elif op == 0xA8:
                    h = hashlib.sha256(v).digest()
                elif op == 0xA9:
                    h = hashlib.new("ripemd160", hashlib.sha256(v).digest()).digest()
                else:
                    h = hashlib.sha256(hashlib.sha256(v).digest()).digest()
                stack.append(h)
            elif op == 0xAB:
                pass            # OP_CODESEPARATOR: a position marker (CONST_SCRIPTCODE not generated)
            elif tapscript and op in (0xAC, 0xAD, 0xBA):
                # EvalChecksigTapscript without the verification itself
                if op == 0xBA:
                    if len(stack) < 3:
                        raise Err("stack")
                    sig, nn, pk = stack[-3], num(stack[-2]), stack[-1]
                    del stack[-3:]
                else:
                    if len(stack) < 2:
                        raise Err("stack")
                    sig, pk = stack[-2], stack[-1]
                    del stack[-2:]
                success = len(sig) > 0
                if success:
                    budget[0] -= 50
                    if budget[0] < 0:
                        raise Err("tapscript validation weight")
                if len(pk) == 0:
                    raise Err("pubkeytype")
                if len(pk) == 32:
                    if success:
                        raise NotModelled()
                elif "DISCOURAGE_UPGRADABLE_PUBKEYTYPE" in flags:
                    raise Err("discourage upgradable pubkeytype")
                if op == 0xBA:
                    stack.append(scriptnum_serialize(nn + (1 if success else 0)))
                elif op == 0xAC:
                    stack.append(b"\x01" if success else b"")
                elif not success:
                    raise Err("checksigverify")
            else:
                raise Err("bad opcode")
        if len(stack) + len(alt) > MAX_STACK:
            raise Err("stack size")
    if vf:
        raise Err("unbalanced")


def push_only(script):
    i, n = 0, len(script)
    while i < n:
        op = script[i]
        i += 1
        if op > 0x60:
            return False
        if op <= 0x4E:
            if op < 0x4C:
                ln = op
            else:
                w = {0x4C: 1, 0x4D: 2, 0x4E: 4}[op]
                if i + w > n:
                    return False
                ln = int.from_bytes(script[i:i + w], "little")
                i += w
            if i + ln > n:
                return False
            i += ln
    return True


def verify(script_sig, script_pub_key, witness, flags):
    """flags: set of names among P2SH, WITNESS, MINIMALDATA, MINIMALIF, CLEANSTACK, SIGPUSHONLY"""
    try:
        md = "MINIMALDATA" in flags
        if "SIGPUSHONLY" in flags and not push_only(script_sig):
            return False
        stack = []
        eval_script(stack, script_sig, md, False)
        copy = list(stack)
        eval_script(stack, script_pub_key, md, False)
        if not stack or not cast_to_bool(stack[-1]):
            return False
        had_witness = False
        spk = script_pub_key

        def witness_program(s):
            if 4 <= len(s) <= 42 and (s[0] == 0 or 0x51 <= s[0] <= 0x60) and s[1] + 2 == len(s):
                return (0 if s[0] == 0 else s[0] - 0x50), s[2:]
            return None
        if "WITNESS" in flags:
            wp = witness_program(spk)
            if wp is not None:
                had_witness = True
                if script_sig != b"":
                    return False
                if not verify_witness(wp, witness, flags):
                    return False
                stack = stack[:1]
        if "P2SH" in flags and len(spk) == 23 and spk[0] == 0xA9 and spk[1] == 0x14 and spk[22] == 0x87:
            if not push_only(script_sig):
                return False
            stack = copy
            if not stack:
                return False
            redeem = stack.pop()
            eval_script(stack, redeem, md, False)
            if not stack or not cast_to_bool(stack[-1]):
                return False
            if "WITNESS" in flags:
                wp = witness_program(redeem)
                if wp is not None:
                    had_witness = True
                    if script_sig != bytes([len(redeem)]) + redeem:
                        return False
                    if not verify_witness(wp, witness, flags):
                        return False
                    stack = stack[:1]
        if "CLEANSTACK" in flags:
            if len(stack) != 1:
                return False
        if "WITNESS" in flags and not had_witness and witness:
            return False
        return True
    except Err:
        return False


def verify_witness(wp, witness, flags):
    version, program = wp
    if version == 0:
        if len(program) == 32:
            if not witness:
                return False
            script = witness[-1]
            if hashlib.sha256(script).digest() != program:
                return False
            stack = list(witness[:-1])
        elif len(program) == 20:
            return False        # P2WPKH needs a signature: not generated
        else:
            return False
        if any(len(e) > MAX_ELEM for e in stack):
            return False
        eval_script(stack, script, True if "MINIMALDATA" in flags else False, "MINIMALIF" in flags)
        return len(stack) == 1 and cast_to_bool(stack[-1])
    return True    # future versions: anyone can spend (no DISCOURAGE flag generated); taproot not generated



def scan_op_success(script):
    """ExecuteWitnessScript's pre-scan for tapscript: True at the first OP_SUCCESSx, Err where
    GetOp fails before one is met, False when the script has none"""
    i, n = 0, len(script)
    while i < n:
        op = script[i]
        i += 1
        if op in OP_SUCCESS:
            return True
        if op <= 0x4E:
            if op < 0x4C:
                ln = op
            else:
                w = {0x4C: 1, 0x4D: 2, 0x4E: 4}[op]
                if i + w > n:
                    raise Err("bad opcode")
                ln = int.from_bytes(script[i:i + w], "little")
                i += w
            if i + ln > n:
                raise Err("bad opcode")
            i += ln
    return False


def verify_tapscript(stack, script, flags, witness_size=None):
    """the leaf-version 0xc0 arm of VerifyWitnessProgram after the control block has been
    checked: OP_SUCCESS pre-scan, initial stack limits, EvalScript(TAPSCRIPT), one true element.
    None where the verdict needs a real signature verification"""
    if witness_size is None:
        from spec.codec import enc_varint
        items = list(stack) + [script, bytes(33)]
        witness_size = len(enc_varint(len(items))) + sum(len(enc_varint(len(x))) + len(x) for x in items)
    try:
        if scan_op_success(script):
            return "DISCOURAGE_OP_SUCCESS" not in flags
        if len(stack) > MAX_STACK or any(len(e) > MAX_ELEM for e in stack):
            return False
        stack = list(stack)
        eval_script(stack, script, "MINIMALDATA" in flags, True, tapscript=True, budget=[50 + witness_size], flags=flags)
        return len(stack) == 1 and cast_to_bool(stack[-1])
    except Err:
        return False
    except NotModelled:
        return None
