"""Reference ECDSA (SEC 1 v2 4.1.3 signing with a given nonce, 4.1.4 verifying, 4.1.6 public
key recovery) on spec/ec_ref.py; curves may have a cofactor."""
from spec.ec_ref import RefCurve


def curve_of(ec):
    """a RefCurve with the parameters of a btclib Curve (parameters only: no btclib arithmetic)"""
    return RefCurve(ec.p, ec._a, ec._b, (ec.G[0], ec.G[1]), ec.n, ec.cofactor)


def sign_raw(C, c, q, k):
    """(r, s, K) unreduced s; None if r or s is zero"""
    K = C.mul(k, C.G)
    if K is None:
        return None
    r = K[0] % C.n
    if r == 0:
        return None
    s = pow(k, -1, C.n) * (c + r * q) % C.n
    if s == 0:
        return None
    return r, s, K


def verify(C, c, Q, r, s):
    """SEC 1 4.1.4 on integers"""
    if not (0 < r < C.n and 0 < s < C.n):
        return False
    if Q is None or not C.on_curve(Q):
        return False
    w = pow(s, -1, C.n)
    R = C.add(C.mul(c * w % C.n, C.G), C.mul(r * w % C.n, Q))
    return R is not None and R[0] % C.n == r


def r_is_liftable(C, r):
    """some x = r + j*n < p is the abscissa of a curve point"""
    x = r
    while x < C.p:
        if C.lift_x(x) is not None:
            return True
        x += C.n
    return False
