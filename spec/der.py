"""Spec: DER encoding of an ECDSA signature (X.690 8.3 INTEGER, BIP66): written from the
standards, not from btclib."""


def der_int(x):
    """02 len V: V the minimal big-endian two's-complement encoding of x > 0... x >= 0"""
    n = x.bit_length() // 8 + 1          # minimal length with a clear top bit
    return b"\x02" + bytes([n]) + x.to_bytes(n, "big")


def der_sig(r, s):
    body = der_int(r) + der_int(s)
    return b"\x30" + bytes([len(body)]) + body


def is_strict_der_sig(b):
    """BIP66 IsValidSignatureEncoding without the sighash byte"""
    if len(b) < 8 or len(b) > 72:
        return False
    if b[0] != 0x30 or b[1] != len(b) - 2:
        return False
    len_r = b[3]
    if 5 + len_r >= len(b):
        return False
    len_s = b[5 + len_r]
    if len_r + len_s + 6 != len(b):
        return False
    if b[2] != 0x02 or len_r == 0 or b[4] & 0x80:
        return False
    if len_r > 1 and b[4] == 0 and not (b[5] & 0x80):
        return False
    if b[len_r + 4] != 0x02 or len_s == 0 or b[len_r + 6] & 0x80:
        return False
    if len_s > 1 and b[len_r + 6] == 0 and not (b[len_r + 7] & 0x80):
        return False
    return True
