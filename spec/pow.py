"""Spec: Bitcoin Core arith_uint256::SetCompact / GetCompact (arith_uint256.cpp),
CalculateNextWorkRequired (pow.cpp), GetBlockProof (chain.cpp). Transcribed from Core,
on Python integers with the 256-bit wrap made explicit."""

M256 = 2**256


def set_compact(n):
    """n: the 32-bit compact value -> (value mod 2**256 as Core's arith_uint256 holds it,
    negative, overflow)"""
    size = n >> 24
    word = n & 0x007FFFFF
    if size <= 3:
        word = word >> (8 * (3 - size))
        value = word
    else:
        value = (word << (8 * (size - 3))) % M256
    negative = word != 0 and (n & 0x00800000) != 0
    overflow = word != 0 and (size > 34 or (word > 0xFF and size > 33) or (word > 0xFFFF and size > 32))
    return value, negative, overflow


def bits_len_bytes(v):
    return (v.bit_length() + 7) // 8


def get_compact(v):
    """v: 0 <= v < 2**256 -> 32-bit compact (fNegative = false)"""
    size = bits_len_bytes(v)
    if size <= 3:
        compact = v << (8 * (3 - size))
    else:
        compact = v >> (8 * (size - 3))
    if compact & 0x00800000:
        compact = compact >> 8
        size = size + 1
    return compact | (size << 24)


def next_work(bits, actual_timespan, pow_limit):
    """CalculateNextWorkRequired with fPowNoRetargeting false; bits/pow_limit compact ints"""
    target_timespan = 14 * 24 * 60 * 60
    if actual_timespan < target_timespan // 4:
        actual_timespan = target_timespan // 4
    if actual_timespan > target_timespan * 4:
        actual_timespan = target_timespan * 4
    bn_new, _, _ = set_compact(bits)
    bn_new = (bn_new * actual_timespan) % M256
    bn_new = bn_new // target_timespan
    limit, _, _ = set_compact(pow_limit)
    if bn_new > limit:
        bn_new = limit
    return get_compact(bn_new)


def block_proof(target):
    """GetBlockProof: (~target / (target + 1)) + 1 on 256-bit words"""
    return ((M256 - 1 - target) // (target + 1)) + 1
