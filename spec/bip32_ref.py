"""Reference BIP32 (the BIP's 'Child key derivation (CKD) functions' and 'Serialization
format'), on spec/ec_ref.py. A key is a dict(version, depth, fingerprint, index, chain, key)."""
import hashlib
import hmac

from spec.ec_ref import SECP256K1 as C
from spec.ec_ref import point_from_sec, sec_compressed

HARD = 0x80000000


def h160(b):
    return hashlib.new("ripemd160", hashlib.sha256(b).digest()).digest() if "ripemd160" in hashlib.algorithms_available else _rmd(hashlib.sha256(b).digest())


def _rmd(b):
    from btclib._ripemd160 import ripemd160 as r   # only when OpenSSL lacks it
    return r(b)


def master(seed, version):
    I = hmac.new(b"Bitcoin seed", seed, "sha512").digest()
    k = int.from_bytes(I[:32], "big")
    if k == 0 or k >= C.n:
        return None
    return dict(version=version, depth=0, fingerprint=b"\x00" * 4, index=0, chain=I[32:], key=b"\x00" + I[:32])


def is_private(k):
    return k["key"][0] == 0


def pub_of(k):
    if is_private(k):
        return sec_compressed(C.mul(int.from_bytes(k["key"][1:], "big"), C.G))
    return k["key"]


def ckd(k, i):
    """one derivation step; 'invalid' where the BIP says the resulting key is invalid,
    'refused' for a hardened step from a public key"""
    if k["depth"] >= 255:
        return "refused"
    if is_private(k):
        data = (k["key"] if i >= HARD else pub_of(k)) + i.to_bytes(4, "big")
        I = hmac.new(k["chain"], data, "sha512").digest()
        il = int.from_bytes(I[:32], "big")
        child = (il + int.from_bytes(k["key"][1:], "big")) % C.n
        if il >= C.n or child == 0:
            return "invalid"
        key = b"\x00" + child.to_bytes(32, "big")
    else:
        if i >= HARD:
            return "refused"
        I = hmac.new(k["chain"], k["key"] + i.to_bytes(4, "big"), "sha512").digest()
        il = int.from_bytes(I[:32], "big")
        P = C.add(C.mul(il, C.G), point_from_sec(k["key"]))
        if il >= C.n or P is None:
            return "invalid"
        key = sec_compressed(P)
    return dict(version=k["version"], depth=k["depth"] + 1, fingerprint=h160(pub_of(k))[:4], index=i, chain=I[32:], key=key)


def derive(k, path):
    for i in path:
        k = ckd(k, i)
        if isinstance(k, str):
            return k
    return k


def serialize(k):
    return k["version"] + bytes([k["depth"]]) + k["fingerprint"] + k["index"].to_bytes(4, "big") + k["chain"] + k["key"]
