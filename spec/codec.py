"""Spec functions for the wire primitives, written from the protocol
documentation (Bitcoin Core serialize.h WriteCompactSize / ReadCompactSize),
not from btclib. Plain Python: run natively by the replay/bounded runner and
symbolically by pyvc."""


def enc_varint(i):
    """CompactSize encoding of 0 <= i < 2**64"""
    if i < 0xFD:
        return bytes([i])
    if i <= 0xFFFF:
        return b"\xfd" + i.to_bytes(2, "little")
    if i <= 0xFFFFFFFF:
        return b"\xfe" + i.to_bytes(4, "little")
    return b"\xff" + i.to_bytes(8, "little")


def varint_len(i):
    if i < 0xFD:
        return 1
    if i <= 0xFFFF:
        return 3
    if i <= 0xFFFFFFFF:
        return 5
    return 9


def enc_varbytes(b):
    return enc_varint(len(b)) + b
