"""Reference elliptic-curve arithmetic: textbook affine chord-and-tangent law over F_p
(SEC 1 v2 section 2.2.1), None is the point at infinity. Deliberately naive (one modular
inversion per operation) and independent of btclib."""


class RefCurve:
    def __init__(self, p, a, b, G, n, h=1):
        self.p, self.a, self.b, self.G, self.n, self.h = p, a, b, G, n, h

    def on_curve(self, P):
        if P is None:
            return True
        x, y = P
        return 0 <= x < self.p and 0 <= y < self.p and (y * y - (x * x * x + self.a * x + self.b)) % self.p == 0

    def neg(self, P):
        return None if P is None else (P[0], (-P[1]) % self.p)

    def add(self, P, Q):
        p = self.p
        if P is None:
            return Q
        if Q is None:
            return P
        x1, y1 = P
        x2, y2 = Q
        if x1 == x2:
            if (y1 + y2) % p == 0:
                return None
            lam = (3 * x1 * x1 + self.a) * pow(2 * y1, -1, p) % p
        else:
            lam = (y2 - y1) * pow(x2 - x1, -1, p) % p
        x3 = (lam * lam - x1 - x2) % p
        return (x3, (lam * (x1 - x3) - y1) % p)

    def mul(self, k, P):
        """k*P for any integer k (negative included), by the definition: repeated doubling"""
        if P is None or k == 0:
            return None
        if k < 0:
            return self.mul(-k, self.neg(P))
        R = None
        Q = P
        while k:
            if k & 1:
                R = self.add(R, Q)
            Q = self.add(Q, Q)
            k >>= 1
        return R

    def lift_x(self, x, even=True):
        """a point with abscissa x (even y if asked), or None"""
        if not 0 <= x < self.p:
            return None
        y2 = (x * x * x + self.a * x + self.b) % self.p
        y = sqrt_mod(y2, self.p)
        if y is None:
            return None
        if (y % 2 == 0) != even:
            y = self.p - y
        return (x, y % self.p)


def sqrt_mod(a, p):
    """brute force for tiny p, Tonelli-Shanks otherwise (written from the textbook)"""
    a %= p
    if a == 0:
        return 0
    if p == 2:
        return a
    if pow(a, (p - 1) // 2, p) != 1:
        return None
    if p % 4 == 3:
        return pow(a, (p + 1) // 4, p)
    q, s = p - 1, 0
    while q % 2 == 0:
        q //= 2
        s += 1
    z = 2
    while pow(z, (p - 1) // 2, p) != p - 1:
        z += 1
    m, c, t, r = s, pow(z, q, p), pow(a, q, p), pow(a, (q + 1) // 2, p)
    while t != 1:
        i, t2 = 0, t
        while t2 != 1:
            t2 = t2 * t2 % p
            i += 1
        b = pow(c, 1 << (m - i - 1), p)
        m, c = i, b * b % p
        t, r = t * c % p, r * b % p
    return r


SECP256K1 = RefCurve(
    0xFFFFFFFFFFFFFFFFFFFFFFFFFFFFFFFFFFFFFFFFFFFFFFFFFFFFFFFEFFFFFC2F, 0, 7,
    (0x79BE667EF9DCBBAC55A06295CE870B07029BFCDB2DCE28D959F2815B16F81798,
     0x483ADA7726A3C4655DA4FBFC0E1108A8FD17B448A68554199C47D08FFB10D4B8),
    0xFFFFFFFFFFFFFFFFFFFFFFFFFFFFFFFEBAAEDCE6AF48A03BBFD25E8CD0364141)


def sec_compressed(P, size=32):
    return bytes([2 + (P[1] & 1)]) + P[0].to_bytes(size, "big")


def point_from_sec(b, curve=SECP256K1):
    size = (curve.p.bit_length() + 7) // 8
    if len(b) == size + 1 and b[0] in (2, 3):
        P = curve.lift_x(int.from_bytes(b[1:], "big"), even=(b[0] == 2))
        return P
    if len(b) == 2 * size + 1 and b[0] == 4:
        P = (int.from_bytes(b[1:size + 1], "big"), int.from_bytes(b[size + 1:], "big"))
        return P if curve.on_curve(P) else None
    return None
