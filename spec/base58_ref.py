"""Reference Base58Check (Bitcoin Core base58.cpp EncodeBase58 / DecodeBase58Check semantics,
written independently with plain big-integer arithmetic)."""
import hashlib

ALPHABET = "123456789ABCDEFGHJKLMNPQRSTUVWXYZabcdefghijkmnopqrstuvwxyz"


def b58encode_raw(b):
    zeros = len(b) - len(b.lstrip(b"\x00"))
    n = int.from_bytes(b, "big")
    out = ""
    while n > 0:
        n, r = divmod(n, 58)
        out = ALPHABET[r] + out
    return "1" * zeros + out


def b58decode_raw(s):
    """None if a character is outside the alphabet"""
    n = 0
    for ch in s:
        k = ALPHABET.find(ch)
        if k < 0:
            return None
        n = n * 58 + k
    zeros = len(s) - len(s.lstrip("1"))
    body = n.to_bytes((n.bit_length() + 7) // 8, "big") if n else b""
    return b"\x00" * zeros + body


def check_encode(payload):
    chk = hashlib.sha256(hashlib.sha256(payload).digest()).digest()[:4]
    return b58encode_raw(payload + chk)


def check_decode(s):
    raw = b58decode_raw(s)
    if raw is None or len(raw) < 4:
        return None
    payload, chk = raw[:-4], raw[-4:]
    if hashlib.sha256(hashlib.sha256(payload).digest()).digest()[:4] != chk:
        return None
    return payload
