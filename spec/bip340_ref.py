"""Reference BIP340 (the BIP's reference.py: schnorr_sign / schnorr_verify), on spec/ec_ref.py."""
import hashlib

from spec.ec_ref import SECP256K1 as C


def tagged_hash(tag, msg):
    t = hashlib.sha256(tag.encode()).digest()
    return hashlib.sha256(t + t + msg).digest()


def b32(x):
    return x.to_bytes(32, "big")


def sign(msg, seckey, aux):
    d0 = seckey
    if not 1 <= d0 <= C.n - 1:
        return None
    P = C.mul(d0, C.G)
    d = d0 if P[1] % 2 == 0 else C.n - d0
    t = b32(d ^ int.from_bytes(tagged_hash("BIP0340/aux", aux), "big"))
    k0 = int.from_bytes(tagged_hash("BIP0340/nonce", t + b32(P[0]) + msg), "big") % C.n
    if k0 == 0:
        return None
    R = C.mul(k0, C.G)
    k = C.n - k0 if R[1] % 2 else k0
    e = int.from_bytes(tagged_hash("BIP0340/challenge", b32(R[0]) + b32(P[0]) + msg), "big") % C.n
    return b32(R[0]) + b32((k + e * d) % C.n)


def verify_ints(msg, px, r, s):
    """BIP340 Verify on integers (the byte-level decoding failures are r >= p, s >= n, px
    not liftable); False for anything out of range, negative included"""
    if not (0 <= px < C.p):
        return False
    P = C.lift_x(px, even=True)
    if P is None or not (0 <= r < C.p) or not (0 <= s < C.n):
        return False
    e = int.from_bytes(tagged_hash("BIP0340/challenge", b32(r) + b32(px) + msg), "big") % C.n
    R = C.add(C.mul(s, C.G), C.mul(C.n - e, P))
    return R is not None and R[1] % 2 == 0 and R[0] == r
