"""Spec: Bitcoin Core script number and boolean semantics (script/script.h CScriptNum,
script/interpreter.cpp CastToBool, OP_IF/OP_NOTIF MINIMALIF rule), transcribed from Core."""


def scriptnum_serialize(value):
    """CScriptNum::serialize"""
    if value == 0:
        return b""
    neg = value < 0
    absvalue = -value if neg else value
    # the while loop of Core pushes the bytes of absvalue, least significant first: there are
    # ceil(bit_length / 8) of them
    n = (absvalue.bit_length() + 7) // 8
    result = [(absvalue >> (8 * k)) & 0xFF for k in range(n)]
    if result[-1] >= 0x80:                      # result.back() & 0x80
        result.append(0x80 if neg else 0)
    elif neg:
        result[-1] = result[-1] + 0x80          # |= 0x80 on a byte whose top bit is clear
    return bytes(result)


def scriptnum_set_vch(vch):
    """CScriptNum::set_vch"""
    if len(vch) == 0:
        return 0
    result = 0
    for i in range(len(vch)):
        result += vch[i] << (8 * i)             # |= of bytes at disjoint positions
    if vch[-1] >= 0x80:                         # vch.back() & 0x80
        # -(result & ~(0x80 << 8*(n-1))): clearing a bit that is set subtracts it
        return -(result - (0x80 << (8 * (len(vch) - 1))))
    return result


def is_minimally_encoded(vch):
    """the fRequireMinimal test of the CScriptNum constructor"""
    if len(vch) > 0:
        if vch[-1] == 0 or vch[-1] == 0x80:     # (vch.back() & 0x7f) == 0
            if len(vch) <= 1 or vch[-2] < 0x80:  # (vch[size-2] & 0x80) == 0
                return False
    return True


def cast_to_bool(vch):
    """CastToBool"""
    for i in range(len(vch)):
        if vch[i] != 0:
            if i == len(vch) - 1 and vch[i] == 0x80:
                return False
            return True
    return False


def minimalif_applies(segwit_version, minimalif_flag):
    """interpreter.cpp OP_IF/OP_NOTIF: tapscript always (consensus); witness v0 under
    SCRIPT_VERIFY_MINIMALIF; never for legacy scripts"""
    return segwit_version == 1 or (segwit_version == 0 and minimalif_flag)


def minimalif_ok(vch):
    return vch == b"" or vch == b"\x01"


# ---- numeric opcodes (interpreter.cpp, case OP_1ADD ... OP_WITHIN) -------------------------
def num_operand(vch, require_minimal, max_size=4):
    """CScriptNum(vch, fRequireMinimal, nMaxNumSize): (ok, value)"""
    if len(vch) > max_size:
        return (False, 0)
    if require_minimal and not is_minimally_encoded(vch):
        return (False, 0)
    return (True, scriptnum_set_vch(vch))


def bool_bytes(b):
    return b"\x01" if b else b""


def unary_op(name, a):
    if name == "OP_1ADD":
        return scriptnum_serialize(a + 1)
    if name == "OP_1SUB":
        return scriptnum_serialize(a - 1)
    if name == "OP_NEGATE":
        return scriptnum_serialize(-a)
    if name == "OP_ABS":
        return scriptnum_serialize(-a if a < 0 else a)
    if name == "OP_NOT":
        return bool_bytes(a == 0)
    if name == "OP_0NOTEQUAL":
        return bool_bytes(a != 0)
    return None


def binary_op(name, a, b):
    if name == "OP_ADD":
        return scriptnum_serialize(a + b)
    if name == "OP_SUB":
        return scriptnum_serialize(a - b)
    if name == "OP_BOOLAND":
        return bool_bytes(a != 0 and b != 0)
    if name == "OP_BOOLOR":
        return bool_bytes(a != 0 or b != 0)
    if name == "OP_NUMEQUAL":
        return bool_bytes(a == b)
    if name == "OP_NUMNOTEQUAL":
        return bool_bytes(a != b)
    if name == "OP_LESSTHAN":
        return bool_bytes(a < b)
    if name == "OP_GREATERTHAN":
        return bool_bytes(a > b)
    if name == "OP_LESSTHANOREQUAL":
        return bool_bytes(a <= b)
    if name == "OP_GREATERTHANOREQUAL":
        return bool_bytes(a >= b)
    if name == "OP_MIN":
        return scriptnum_serialize(a if a < b else b)
    if name == "OP_MAX":
        return scriptnum_serialize(a if a > b else b)
    return None


def within_op(x, mn, mx):
    return bool_bytes(mn <= x and x < mx)
