"""Reference: Bitcoin merkle tree (Core consensus/merkle.cpp ComputeMerkleRoot with the
CVE-2012-2459 mutation flag; branch extraction as in the original MerkleBranch), SipHash-2-4
(the paper's definition, as Core's CSipHasher), BIP158 Golomb-coded sets."""
import hashlib


def hash256(b):
    return hashlib.sha256(hashlib.sha256(b).digest()).digest()


def merkle_root_and_mutated(hashes):
    level = list(hashes)
    mutated = False
    while len(level) > 1:
        for pos in range(0, len(level) - 1, 2):
            if level[pos] == level[pos + 1]:
                mutated = True
        if len(level) & 1:
            level.append(level[-1])
        level = [hash256(level[i] + level[i + 1]) for i in range(0, len(level), 2)]
    return level[0], mutated


def merkle_branch(hashes, index):
    level = list(hashes)
    branch = []
    while len(level) > 1:
        if len(level) & 1:
            level.append(level[-1])
        branch.append(level[index ^ 1])
        index >>= 1
        level = [hash256(level[i] + level[i + 1]) for i in range(0, len(level), 2)]
    return branch


M64 = 2**64 - 1


def _rotl(x, b):
    return ((x << b) | (x >> (64 - b))) & M64


def _sipround(v0, v1, v2, v3):
    v0 = (v0 + v1) & M64; v1 = _rotl(v1, 13); v1 ^= v0; v0 = _rotl(v0, 32)
    v2 = (v2 + v3) & M64; v3 = _rotl(v3, 16); v3 ^= v2
    v0 = (v0 + v3) & M64; v3 = _rotl(v3, 21); v3 ^= v0
    v2 = (v2 + v1) & M64; v1 = _rotl(v1, 17); v1 ^= v2; v2 = _rotl(v2, 32)
    return v0, v1, v2, v3


def siphash24(k0, k1, data):
    v0 = 0x736F6D6570736575 ^ k0
    v1 = 0x646F72616E646F6D ^ k1
    v2 = 0x6C7967656E657261 ^ k0
    v3 = 0x7465646279746573 ^ k1
    n = len(data)
    for off in range(0, n - n % 8, 8):
        m = int.from_bytes(data[off:off + 8], "little")
        v3 ^= m
        v0, v1, v2, v3 = _sipround(v0, v1, v2, v3)
        v0, v1, v2, v3 = _sipround(v0, v1, v2, v3)
        v0 ^= m
    m = int.from_bytes(data[n - n % 8:], "little") | ((n & 0xFF) << 56)
    v3 ^= m
    v0, v1, v2, v3 = _sipround(v0, v1, v2, v3)
    v0, v1, v2, v3 = _sipround(v0, v1, v2, v3)
    v0 ^= m
    v2 ^= 0xFF
    for _ in range(4):
        v0, v1, v2, v3 = _sipround(v0, v1, v2, v3)
    return v0 ^ v1 ^ v2 ^ v3


P, M = 19, 784931


def gcs_hash(block_hash, element, n):
    key = block_hash[::-1][:16]
    k0, k1 = int.from_bytes(key[:8], "little"), int.from_bytes(key[8:], "little")
    return (siphash24(k0, k1, element) * (n * M)) >> 64


def gcs_encode(block_hash, elements):
    elements = sorted(set(elements))
    n = len(elements)
    values = sorted(gcs_hash(block_hash, e, n) for e in elements)
    bits = []
    last = 0
    for v in values:
        d = v - last
        last = v
        q, r = d >> P, d & ((1 << P) - 1)
        bits += [1] * q + [0] + [(r >> (P - 1 - i)) & 1 for i in range(P)]
    while len(bits) % 8:
        bits.append(0)
    out = bytes(int("".join(map(str, bits[i:i + 8])), 2) for i in range(0, len(bits), 8))
    return n, out, values
