"""Spec: signature hash preimages. Legacy (Core SignatureHash / test_framework
LegacySignatureMsg), BIP143 (SegwitV0SignatureMsg), BIP341 (TaprootSignatureMsg). Written from
the BIPs and Core's functional-test framework, field by field; tx is a btclib Tx used as a
plain record (version, lock_time, vin[i].prev_out.tx_id/vout, script_sig, sequence,
vout[j].value, script_pub_key.script)."""
import hashlib

from spec.codec import enc_varbytes, enc_varint

SIGHASH_ALL, SIGHASH_NONE, SIGHASH_SINGLE, SIGHASH_ANYONECANPAY = 1, 2, 3, 0x80
OP_CODESEPARATOR = 0xAB


def sha256(b):
    return hashlib.sha256(b).digest()


def hash256(b):
    return sha256(sha256(b))


def le(x, n):
    return x.to_bytes(n, "little")


def ser_outpoint(o):
    return o.tx_id[::-1] + le(o.vout, 4)


def ser_txout(o):
    return o.value.to_bytes(8, "little", signed=True) + enc_varbytes(o.script_pub_key.script)


def tagged_hash(tag, msg):
    t = sha256(tag)
    return sha256(t + t + msg)


# ---- BIP143 -------------------------------------------------------------------------------
def bip143_preimage(script_code, tx, i, hash_type, amount):
    hash_prevouts = b"\x00" * 32
    hash_sequence = b"\x00" * 32
    hash_outputs = b"\x00" * 32
    if not (hash_type & SIGHASH_ANYONECANPAY):
        ser = b""
        for x in tx.vin:
            ser = ser + ser_outpoint(x.prev_out)
        hash_prevouts = hash256(ser)
    if (not (hash_type & SIGHASH_ANYONECANPAY)) and (hash_type & 0x1F) != SIGHASH_SINGLE and (hash_type & 0x1F) != SIGHASH_NONE:
        ser = b""
        for x in tx.vin:
            ser = ser + le(x.sequence, 4)
        hash_sequence = hash256(ser)
    if (hash_type & 0x1F) != SIGHASH_SINGLE and (hash_type & 0x1F) != SIGHASH_NONE:
        ser = b""
        for o in tx.vout:
            ser = ser + ser_txout(o)
        hash_outputs = hash256(ser)
    elif (hash_type & 0x1F) == SIGHASH_SINGLE and i < len(tx.vout):
        hash_outputs = hash256(ser_txout(tx.vout[i]))
    ss = le(tx.version, 4)
    ss = ss + hash_prevouts + hash_sequence
    ss = ss + ser_outpoint(tx.vin[i].prev_out)
    ss = ss + enc_varbytes(script_code)
    ss = ss + amount.to_bytes(8, "little", signed=True)
    ss = ss + le(tx.vin[i].sequence, 4)
    ss = ss + hash_outputs
    ss = ss + le(tx.lock_time, 4)
    ss = ss + le(hash_type % 2**32, 4)
    return ss


def bip143(script_code, tx, i, hash_type, amount):
    return hash256(bip143_preimage(script_code, tx, i, hash_type, amount))


# ---- BIP341 -------------------------------------------------------------------------------
def bip341_sigmsg(tx, i, prevouts, hash_type, ext_flag, annex, ext):
    """None where BIP341 declares an error"""
    if hash_type not in (0, 1, 2, 3, 0x81, 0x82, 0x83):
        return None
    out_type = SIGHASH_ALL if hash_type == 0 else hash_type & 3
    in_type = hash_type & SIGHASH_ANYONECANPAY
    if out_type == SIGHASH_SINGLE and i >= len(tx.vout):
        return None
    ss = bytes([0, hash_type])
    ss += le(tx.version, 4) + le(tx.lock_time, 4)
    if in_type != SIGHASH_ANYONECANPAY:
        ss += sha256(b"".join(ser_outpoint(x.prev_out) for x in tx.vin))
        ss += sha256(b"".join(p.value.to_bytes(8, "little", signed=True) for p in prevouts))
        ss += sha256(b"".join(enc_varbytes(p.script_pub_key.script) for p in prevouts))
        ss += sha256(b"".join(le(x.sequence, 4) for x in tx.vin))
    if out_type == SIGHASH_ALL:
        ss += sha256(b"".join(ser_txout(o) for o in tx.vout))
    spend_type = ext_flag * 2 + (1 if annex else 0)
    ss += bytes([spend_type])
    if in_type == SIGHASH_ANYONECANPAY:
        ss += ser_outpoint(tx.vin[i].prev_out)
        ss += prevouts[i].value.to_bytes(8, "little", signed=True)
        ss += enc_varbytes(prevouts[i].script_pub_key.script)
        ss += le(tx.vin[i].sequence, 4)
    else:
        ss += le(i, 4)
    if annex:
        ss += sha256(enc_varbytes(annex))
    if out_type == SIGHASH_SINGLE:
        ss += sha256(ser_txout(tx.vout[i]))
    ss += ext
    return ss


def bip341(tx, i, prevouts, hash_type, ext_flag, annex, ext):
    m = bip341_sigmsg(tx, i, prevouts, hash_type, ext_flag, annex, ext)
    return None if m is None else tagged_hash(b"TapSighash", m)


def bip341_annex_and_ext(witness_stack):
    """BIP341: 'If there are at least two witness elements, and the first byte of the last
    element is 0x50, this last element is called annex'; script path: leaf hash extension"""
    stack = list(witness_stack)
    annex = b""
    if len(stack) >= 2 and stack[-1][:1] == b"\x50":
        annex = stack[-1]
        stack = stack[:-1]
    ext = b""
    if len(stack) > 1:
        control, script = stack[-1], stack[-2]
        leaf_version = control[0] & 0xFE
        ext = tagged_hash(b"TapLeaf", bytes([leaf_version]) + enc_varbytes(script)) + b"\x00" + b"\xff\xff\xff\xff"
    return annex, ext


# ---- legacy -------------------------------------------------------------------------------
def script_ops(script):
    """(opcode, start, stop) spans; a truncated push runs to the end of the script"""
    i = 0
    out = []
    n = len(script)
    while i < n:
        op = script[i]
        start = i
        i += 1
        if op <= 0x4E:
            if op < 0x4C:
                ln = op
            elif op == 0x4C:
                ln = script[i] if i < n else None
                i += 1
            elif op == 0x4D:
                ln = int.from_bytes(script[i:i + 2], "little") if i + 2 <= n else None
                i += 2
            else:
                ln = int.from_bytes(script[i:i + 4], "little") if i + 4 <= n else None
                i += 4
            if ln is None or i + ln > n:
                out.append((None, start, n))
                return out
            i += ln
        out.append((op, start, i))
    return out


def find_and_delete_codeseparators(script):
    out = b""
    for op, a, b in script_ops(script):
        if op is None:
            out += script[a:b]          # Core's GetOp fails: the rest is kept as is
        elif op != OP_CODESEPARATOR:
            out += script[a:b]
    return out


def legacy_preimage(script_code, tx, i, hash_type):
    """None for the SIGHASH_SINGLE out-of-range case (digest is the constant 1)"""
    script_code = find_and_delete_codeseparators(script_code)
    base = hash_type & 0x1F
    if base == SIGHASH_SINGLE and i >= len(tx.vout):
        return None
    vin = []
    for k, x in enumerate(tx.vin):
        seq = x.sequence
        if k != i and base in (SIGHASH_NONE, SIGHASH_SINGLE):
            seq = 0
        vin.append((x.prev_out, script_code if k == i else b"", seq))
    if hash_type & SIGHASH_ANYONECANPAY:
        vin = [vin[i]]
    if base == SIGHASH_NONE:
        vout = []
    elif base == SIGHASH_SINGLE:
        vout = [(-1, b"")] * i + [(tx.vout[i].value, tx.vout[i].script_pub_key.script)]
    else:
        vout = [(o.value, o.script_pub_key.script) for o in tx.vout]
    ss = le(tx.version, 4) + enc_varint(len(vin))
    for po, sc, seq in vin:
        ss += ser_outpoint(po) + enc_varbytes(sc) + le(seq, 4)
    ss += enc_varint(len(vout))
    for v, spk in vout:
        ss += v.to_bytes(8, "little", signed=True) + enc_varbytes(spk)
    ss += le(tx.lock_time, 4) + le(hash_type % 2**32, 4)
    return ss


def legacy(script_code, tx, i, hash_type):
    p = legacy_preimage(script_code, tx, i, hash_type)
    if p is None:
        return (1).to_bytes(32, "little")
    return hash256(p)
