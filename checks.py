"""Per-property configuration of bin/check: which contract modules carry the
property, bounded stand-ins, what stays undecided, what is assumed."""

COMMON_TRUSTED = [
    "pyvc (extractor, symbolic executor, encoders in /verif/pyvc): cross-checked against CPython and seeded mutants, not verified",
    "z3 5.1.0 (python3-vt), cvc5 1.0.3 CLI as second solver",
    "CPython builtins as axiomatised in DESIGN.md 3.4 (int arithmetic, to_bytes/from_bytes, BytesIO.read/seek, pow, bit_length)",
]
COMMON_ASSUMPTIONS = [
    "single thread; no two mutable arguments alias unless a contract says so",
    "text of exception messages is dropped by extraction (f-strings containing calls are not evaluated)",
    "termination is not claimed except where a `dec` clause is proved",
]

PROPS = {}

PROPS["C05"] = dict(
    level="proof",
    modules=["contracts.c_var_int"],
    not_decided=[],
    assumptions=[],
    bounded=[],
)

PROPS["C05"] = dict(
    level="proof",
    modules=["contracts.c_var_int", "contracts.c_tx", "contracts.c_dsa_der", "contracts.c_json", "contracts.c_psbt_combine"],
    not_decided=["p2p payloads, Block, key origins: not under contract; PSBT maps and JSON forms: bounded stand-ins only",
                 "Tx-level composition is proved for list lengths vin 1..2, vout 1..2, witness stacks of 0..2 items and element scripts shorter than 253 bytes (bounded in those parameters); element codecs are proved for every length"],
    assumptions=["payload sizes are at most var_int.MAX_SIZE (32 MiB), the protocol's own message bound"],
    bounded=[],
)
PROPS["C18"] = dict(
    level="proof",
    modules=["contracts.c_var_int", "contracts.c_tx", "contracts.c_fee", "contracts.c_dsa_der", "contracts.c_pipeline"],
    not_decided=["PSBT weight estimate vs signed weight; Decimal conversions"],
    assumptions=[],
    bounded=[],
)
PROPS["C17"] = dict(
    level="proof",
    modules=["contracts.c_pow", "contracts.c_block"],
    not_decided=["'no other leaf or index verifies' needs collision resistance", "filters, compact blocks: not under contract yet"],
    assumptions=["block times are whole seconds (datetime modelled as POSIX timestamp)"],
    bounded=[],
)

PROPS["C01"] = dict(
    level="proof",
    modules=["contracts.c_number_theory", "contracts.c_curve", "contracts.c_group_law"],
    extra=["pyvc.extras.lean_preamble"],
    not_decided=[],
    assumptions=["p and n prime where a contract says so (the constructor's Fermat base-2 test is weaker)"],
    bounded=[],
)

PROPS["C02"] = dict(
    level="proof",
    modules=["contracts.c_dsa_der", "contracts.c_dsa"],
    not_decided=[],
    assumptions=["HMAC/SHA are functions (uninterpreted)"],
    bounded=[],
)

PROPS["C06"] = dict(
    level="proof",
    modules=["contracts.c_bech32", "contracts.c_script_pub_key", "contracts.c_base58"],
    not_decided=["string-level decoders (bech32._decode, base58.decode, WIF/xkey) are outside the executed subset (str values): bounded stand-ins against independent reference decoders",
                 "polymod/closure lemmas: all symbol values, sequence lengths 1..8 (length is the bound)"],
    assumptions=["sha256 is a function"],
    bounded=[],
)

PROPS["C08"] = dict(
    level="proof",
    modules=["contracts.c_script_num", "contracts.c_opcodes", "contracts.c_engine"],
    not_decided=["acceptance of whole programs equals Core's (only each rule is decided)",
                 "_run_ops, witness/taproot spend rules, signature encodings: not under contract yet"],
    assumptions=["Core's rules as transcribed in spec/core_script.py"],
    bounded=[],
)

PROPS["C09"] = dict(
    level="proof",
    modules=["contracts.c_tx", "contracts.c_sighash"],
    not_decided=["taproot == BIP341 SigMsg as a deductive statement: the contract exists (deep tier) and did not finish in 3.4 h (2048 paths, 27837 obligations discharged, none failed); BIP341 is covered by bounded stand-ins only",
                 "legacy digest (script walking over symbolic scripts): bounded stand-in", "PSBT-level and streamed-view digests: bounded stand-in"],
    assumptions=["sha256 is a function (uninterpreted); BIP143/BIP341 layouts as transcribed in spec/sighash.py"],
    bounded=[],
)

PROPS["C07"] = dict(
    level="other",
    modules=["contracts.c_bip32"],
    not_decided=["derivation equations: bounded stand-in against an independent reference (HMAC/EC outside the executed subset for 256-bit point arithmetic)"],
    assumptions=["HMAC-SHA512, RIPEMD160/SHA256 of hashlib"],
    explanation="Range checks are proved for all inputs; the CKD equations, split/neuter/crack laws and SLIP132 prefixes are checked by bounded stand-ins (stated bounds) against an independent reference implementation - labelled bounded, not proved.",
    bounded=[],
)

PROPS["C11"] = dict(
    level="proof",
    modules=["contracts.c_psbt_combine"],
    not_decided=["sign/finalize never change the unsigned transaction; PsbtView agreement; role sequences"],
    assumptions=["copy.deepcopy returns a structure sharing nothing mutable with its argument"],
    bounded=[],
)

PROPS["C12"] = dict(
    level="other",
    modules=["contracts.c_taproot", "contracts.c_descriptors"],
    not_decided=["'altered in any bit no longer verifies' for all alterations needs collision resistance; single-bit flips are sampled"],
    assumptions=["sha256 (tagged hashes) of hashlib"],
    explanation="Bounded stand-ins (stated bounds) on both arithmetic arms against the BIP341 reference constructions on an independent EC implementation; not proved.",
    bounded=[],
)

PROPS["C03"] = dict(
    level="other",
    modules=["contracts.c_ssa"],
    not_decided=["batch verification true => every member verifies is probabilistic (over the library's own coefficients)"],
    assumptions=["sha256 of hashlib"],
    explanation="Bounded stand-ins (stated bounds) on both arithmetic arms against BIP340's reference algorithms on an independent EC implementation; not proved.",
    bounded=[],
)

PROPS["C19"] = dict(
    level="proof",
    modules=["contracts.c_var_int", "contracts.c_tx", "contracts.c_dsa_der", "contracts.c_pow", "contracts.c_script_num", "contracts.c_opcodes",
             "contracts.c_script_pub_key", "contracts.c_number_theory", "contracts.c_bech32", "contracts.c_base58", "contracts.c_fee",
             "contracts.c_bip32", "contracts.c_taproot", "contracts.c_ssa", "contracts.c_dsa", "contracts.c_block", "contracts.c_engine", "contracts.c_descriptors", "contracts.c_hostile"],
    not_decided=["hangs (termination) except where a `dec` clause is proved", "JSON guards, descriptor/miniscript parsers, recursion depth: not under contract"],
    assumptions=[],
    explanation="safety.* obligations (no IndexError/KeyError/OverflowError/... at any subscript, width conversion, division) and raises.undeclared.* obligations of every parser and predicate under contract",
    bounded=[],
)
PROPS["C04"] = dict(
    level="other",
    modules=["contracts.c_taproot", "contracts.c_ssa", "contracts.c_dsa", "contracts.c_curve", "contracts.c_protocols", "contracts.c_history", "contracts.c_engine", "contracts.c_bip32"],
    not_decided=["the C arm's results for all inputs: assumed; only the bounded differential below is checked"],
    assumptions=["btclib_secp256k1 (libsecp256k1 bindings) is trusted code outside the Python subset"],
    explanation="Every dual-path API under contract is run on both arms (set_libsecp256k1_serving True/False) over generated inputs (valid and malformed): both must satisfy the same contract and give the same value / the same exception class (arms.differ obligation). Bounded differential, labelled bounded; no proof about the C arm.",
    bounded=[],
)

DEFAULT_CLAIM = {
    "proof": "Every obligation generated from the current source of the functions under contract (post-conditions, raises-iff, loop invariants, safety, lemmas) is discharged for all inputs of the declared types; bounded stand-ins cover the functions outside the executed subset and are labelled bounded, never counted as proved.",
    "other": "Contracts on the real functions: the obligations within the executed subset are proved; the property's equations are checked by bounded stand-ins (stated bounds) against independent reference implementations - not a proof.",
}
NOT_APPLICABLE = {}

PROPS["C10"] = dict(
    level="other",
    modules=["contracts.c_pipeline", "contracts.c_dsa", "contracts.c_miniscript"],
    not_decided=["the closure as a deductive statement: it ranges over updater, signer, finalizer, extractor, sighash and the interpreter (>40 functions, dynamic dispatch) and no function-level contract within the executed subset states it",
                 "'a signature never verifies for a different key' for all keys (unforgeability): sampled, not proved",
                 "musig2 and combo descriptors; psbts created as version 2 (here: version 0 converted with to_v2 before signing)"],
    assumptions=["sha256 / ripemd160 of hashlib; the engine's verdict is the oracle of this property by its own statement (C08 holds the engine to Core)"],
    explanation="Bounded stand-in on a sidecar driver over the real roles (descriptor Updater, psbt.sign with the library's SoftwareSigner, finalize, extract_tx, verify_transaction): every generated spend is accepted and every committed single-field alteration rejected; BIP322 and Bitcoin message signatures verify only for their own message, address and key. Not proved.",
    bounded=[],
)

PROPS["C16"] = dict(
    level="other",
    modules=["contracts.c_protocols"],
    not_decided=["'for no other key / no altered statement' clauses need discrete-log / collision assumptions; ECIES, Pedersen, Borromean, PSBT-level MuSig2: not under contract"],
    assumptions=["sha256 of hashlib"],
    explanation="Bounded stand-ins: sidecar drivers run the real functions through one honest protocol run per generated configuration (both arms where dual-path) and check agreement with independent references (BIP340 verification of the MuSig2 aggregate, recomputed keys); not proved.",
    bounded=[],
)
PROPS["C20"] = dict(
    level="other",
    modules=["contracts.c_protocols", "contracts.c_history"],
    not_decided=["thread interleavings (no concurrency reasoning in this family)", "cache transparency of memoised tables"],
    assumptions=[],
    explanation="Bounded stand-ins on call sequences: a MuSig2 secret nonce is zeroed by a successful sign and every later sign with it is refused; signer and wallet ledgers are exercised by generated call sequences against a reference ledger; not proved.",
    bounded=[],
)

PROPS["C13"] = dict(
    level="other",
    modules=["contracts.c_mnemonic"],
    not_decided=["Electrum version search, BIP85; all SLIP39 subsets (one qualifying subset, one wrong passphrase and one short subset per configuration are sampled)"],
    assumptions=["hashlib sha256 / pbkdf2_hmac"],
    explanation="Deductive: the live GF(2^8) tables are the field (ground obligation), RS1024 checksum closure for all 10-bit symbols. Bounded stand-ins: BIP39 encode/decode against the BIP's algorithm recomputed with hashlib in every language, checksum acceptance under single-word substitution, PBKDF2 seeds, SLIP39 split/recover; not proved.",
    bounded=[],
)
PROPS["C14"] = dict(
    level="other",
    modules=["contracts.c_descriptors", "contracts.c_history"],
    not_decided=["musig(), miniscript and raw()/addr()/combo() descriptors; all 2^31 indexes (0..11 sampled)"],
    assumptions=["independent BIP32 / BIP341 references in /verif/spec"],
    explanation="Deductive: the BIP380 polymod equals the reference bit-by-bit step (all symbol values, 1..5 symbols). Bounded stand-ins: derived scripts against the independent BIP32 reference and hand assembly, text round trip, checksum, index_of / position_of, single-character corruption; not proved.",
    bounded=[],
)
PROPS["C15"] = dict(
    level="other",
    modules=["contracts.c_miniscript"],
    not_decided=["satisfaction vs the engine, witness-size bounds, 'no satisfaction when the condition is false'"],
    assumptions=[],
    explanation="Bounded stand-in: generated well-typed expressions (every fragment and wrapper listed in the rule, depth <= 2, both contexts): predicted size = compiled size, read-back compiles to the same script, text re-parses to the same expression; not proved.",
    bounded=[],
)
